#!/usr/bin/env python3
"""Checker self-validation: applies each mutant to a scratch copy of /repo (outside /repo and
/verif), runs the named checks against it and requires the expected rule to fire; benign
edits must stay silent. Usage: tools/selftest.py [name-substring ...] [--props C04,C05]"""
import json
import os
import shutil
import subprocess
import sys
import tempfile

VERIF = os.path.dirname(os.path.dirname(os.path.abspath(__file__)))
sys.path.insert(0, os.path.join(VERIF, "mutants"))
from mutants import MUTANTS, BENIGN  # noqa: E402


def run_check(prop, repo):
    env = dict(os.environ, RSAV_REPO=repo, RSAV_OUT_DIR=os.path.join(os.path.dirname(repo), "out"))   # reports/evidence of mutant runs go to the scratch dir
    r = subprocess.run([os.path.join(VERIF, "check"), prop], cwd=VERIF, env=env, stdout=subprocess.PIPE, stderr=subprocess.STDOUT, text=True)
    return r.returncode, r.stdout


def main():
    args = [a for a in sys.argv[1:] if not a.startswith("--")]
    props_filter = None
    for a in sys.argv[1:]:
        if a.startswith("--props"):
            props_filter = set(a.split("=", 1)[1].split(","))
    all_props = sorted(f[:-3].upper() for f in os.listdir(os.path.join(VERIF, "engine", "rules")) if f.startswith("c") and f[1:3].isdigit())
    scratch = tempfile.mkdtemp(prefix="rsav-selftest-")
    repo = os.path.join(scratch, "repo")
    failures = []
    try:
        subprocess.check_call(["rsync", "-a", "--exclude", "target", "--exclude", ".git", "/repo/", repo + "/"])
        for m in MUTANTS + [dict(b, benign=True) for b in BENIGN]:
            if args and not any(a in m["name"] for a in args):
                continue
            p = os.path.join(repo, m["file"])
            src = open(p).read()
            if m["old"] not in src:
                failures.append((m["name"], "pattern not found in %s" % m["file"]))
                print("SKIP %-32s pattern not found" % m["name"])
                continue
            new = src.replace(m["old"], m["new"]) if m.get("all") else src.replace(m["old"], m["new"], 1)
            open(p, "w").write(new)
            extra_saved = []
            for (f2, o2, n2) in m.get("also", []):
                p2 = os.path.join(repo, f2)
                s2 = open(p2).read() if p2 != p else new
                if o2 not in s2:
                    print("SKIP-also %s pattern not found in %s" % (m["name"], f2))
                extra_saved.append((p2, open(os.path.join("/repo", f2)).read()))
                open(p2, "w").write(s2.replace(o2, n2) if m.get("all") else s2.replace(o2, n2, 1))
            try:
                if m.get("benign"):
                    props = [x for x in all_props if not props_filter or x in props_filter]
                    for pr in props:
                        rc, out = run_check(pr, repo)
                        if rc != 0:
                            failures.append((m["name"], "benign edit raised an alarm in %s:\n%s" % (pr, out[-600:])))
                            print("FAIL %-32s %s alarm on benign edit" % (m["name"], pr))
                        else:
                            print("ok   %-32s %s silent" % (m["name"], pr))
                else:
                    for pr, rule in m["expect"].items():
                        if props_filter and pr not in props_filter:
                            continue
                        if pr not in all_props:
                            continue
                        rc, out = run_check(pr, repo)
                        hit = rc == 1 and ("rule %s" % rule) in out
                        if "extraction failed" in out:
                            failures.append((m["name"], "mutant does not compile"))
                            print("FAIL %-32s does not compile" % m["name"])
                        elif not hit:
                            failures.append((m["name"], "%s did not report %s:\n%s" % (pr, rule, out[-800:])))
                            print("FAIL %-32s %s expected %s" % (m["name"], pr, rule))
                        else:
                            print("ok   %-32s %s -> %s" % (m["name"], pr, rule))
            finally:
                for p2, orig in extra_saved:
                    open(p2, "w").write(orig)
                open(p, "w").write(src)
    finally:
        shutil.rmtree(scratch, ignore_errors=True)
    print("\n%d failure(s)" % len(failures))
    for n, why in failures:
        print("--", n, ":", why)
    return 1 if failures else 0


if __name__ == "__main__":
    sys.exit(main())
