#!/usr/bin/env python3
"""Checker self-validation: applies each mutant to a scratch copy of /repo (outside /repo and
/verif), runs the named checks against it and requires the expected rule to fire; benign
edits must stay silent. Usage: tools/selftest.py [name-substring ...] [--props=C04,C05] [--workers=N]"""
import json
import os
import shutil
import subprocess
import sys
import tempfile

VERIF = os.path.dirname(os.path.dirname(os.path.abspath(__file__)))
sys.path.insert(0, os.path.join(VERIF, "mutants"))
from mutants import MUTANTS, BENIGN  # noqa: E402


def run_check(prop, repo):
    env = dict(os.environ, RSAV_REPO=repo, RSAV_OUT_DIR=os.path.join(os.path.dirname(repo), "out"), RSAV_TARGET_DIR=os.path.join(os.path.dirname(repo), "target"))   # reports/evidence of mutant runs go to the scratch dir
    r = subprocess.run([os.path.join(VERIF, "check"), prop], cwd=VERIF, env=env, stdout=subprocess.PIPE, stderr=subprocess.STDOUT, text=True)
    return r.returncode, r.stdout


def one(m, repo, all_props, props_filter):
    """Applies one edit to the scratch copy `repo`, runs the checks, restores the copy. Returns (lines, failures)."""
    lines, failures = [], []
    if m.get("base"):
        # the edit is made on top of a behaviour-preserving refactoring from benign/: the generalised rules must still
        # report the mutation in the refactored form of the code
        r = subprocess.run(["patch", "-p1", "-s", "-i", os.path.join(VERIF, m["base"])], cwd=repo, stdout=subprocess.PIPE, stderr=subprocess.STDOUT, text=True)
        if r.returncode != 0:
            return ["SKIP %-32s base patch does not apply" % m["name"]], [(m["name"], "base patch does not apply: %s" % r.stdout[-200:])]
        try:
            return _one(m, repo, all_props, props_filter)
        finally:
            subprocess.run(["patch", "-p1", "-s", "-R", "-i", os.path.join(VERIF, m["base"])], cwd=repo, stdout=subprocess.PIPE, stderr=subprocess.STDOUT)
    return _one(m, repo, all_props, props_filter)


def _one(m, repo, all_props, props_filter):
    lines, failures = [], []
    p = os.path.join(repo, m["file"])
    src = open(p).read()
    if m["old"] not in src:
        return ["SKIP %-32s pattern not found" % m["name"]], [(m["name"], "pattern not found in %s" % m["file"])]
    new = src.replace(m["old"], m["new"]) if m.get("all") else src.replace(m["old"], m["new"], 1)
    open(p, "w").write(new)
    extra_saved = []
    for (f2, o2, n2) in m.get("also", []):
        p2 = os.path.join(repo, f2)
        s2 = open(p2).read() if p2 != p else new
        if o2 not in s2:
            lines.append("SKIP-also %s pattern not found in %s" % (m["name"], f2))
        extra_saved.append((p2, open(p2).read()))
        open(p2, "w").write(s2.replace(o2, n2) if m.get("all") else s2.replace(o2, n2, 1))
    try:
        if m.get("benign"):
            props = [x for x in all_props if not props_filter or x in props_filter]
            for pr in props:
                rc, out = run_check(pr, repo)
                if rc != 0:
                    failures.append((m["name"], "benign edit raised an alarm in %s:\n%s" % (pr, out[-600:])))
                    lines.append("FAIL %-32s %s alarm on benign edit" % (m["name"], pr))
                else:
                    lines.append("ok   %-32s %s silent" % (m["name"], pr))
        else:
            for pr, rule in m["expect"].items():
                if props_filter and pr not in props_filter:
                    continue
                if pr not in all_props:
                    continue
                rc, out = run_check(pr, repo)
                hit = rc == 1 and ("rule %s" % rule) in out
                if "extraction failed" in out:
                    failures.append((m["name"], "mutant does not compile"))
                    lines.append("FAIL %-32s does not compile" % m["name"])
                elif not hit:
                    failures.append((m["name"], "%s did not report %s:\n%s" % (pr, rule, out[-800:])))
                    lines.append("FAIL %-32s %s expected %s" % (m["name"], pr, rule))
                else:
                    lines.append("ok   %-32s %s -> %s" % (m["name"], pr, rule))
    finally:
        for p2, orig in extra_saved:
            open(p2, "w").write(orig)
        open(p, "w").write(src)
    return lines, failures


def main():
    args = [a for a in sys.argv[1:] if not a.startswith("--")]
    props_filter = None
    for a in sys.argv[1:]:
        if a.startswith("--props"):
            props_filter = set(a.split("=", 1)[1].split(","))
    all_props = sorted(f[:-3].upper() for f in os.listdir(os.path.join(VERIF, "engine", "rules")) if f.startswith("c") and f[1:3].isdigit())
    workers = 1
    for a in sys.argv[1:]:
        if a.startswith("--workers="):
            workers = int(a.split("=", 1)[1])
    scratch = tempfile.mkdtemp(prefix="rsav-selftest-")
    failures = []
    todo = [m for m in MUTANTS + [dict(b, benign=True) for b in BENIGN] if not args or any(a in m["name"] for a in args)]
    import concurrent.futures as cf
    import threading
    lock = threading.Lock()
    free = []
    try:
        for k in range(workers):
            repo = os.path.join(scratch, "w%d" % k, "repo")
            os.makedirs(os.path.dirname(repo))
            subprocess.check_call(["rsync", "-a", "--exclude", "target", "--exclude", ".git", "/repo/", repo + "/"])
            free.append(repo)

        def job(m):
            with lock:
                repo = free.pop()
            try:
                lines, fails = one(m, repo, all_props, props_filter)
            finally:
                with lock:
                    free.append(repo)
            with lock:
                failures.extend(fails)
                for ln in lines:
                    print(ln)
                sys.stdout.flush()
        with cf.ThreadPoolExecutor(max_workers=workers) as ex:
            list(ex.map(job, todo))
    finally:
        shutil.rmtree(scratch, ignore_errors=True)
    print("\n%d failure(s)" % len(failures))
    for n, why in failures:
        print("--", n, ":", why)
    return 1 if failures else 0


if __name__ == "__main__":
    sys.exit(main())
