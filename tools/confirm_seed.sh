#!/bin/bash
# Confirms a sub-agent's seeded change in its scratch worktree: patch is the recorded one, the
# workspace test suite passes with it, the demonstration fails with it and passes without it.
# Usage: confirm_seed.sh /tmp/seed/CXX
WT="$1"
cd "$WT" || exit 2
LOG="$WT/confirm.log"
: > "$LOG"
DEMO_CMD=$(python3 -c "import json;print(json.load(open('seed/meta.json'))['demo_cmd'])")
echo "demo_cmd: $DEMO_CMD" >> "$LOG"
git diff -- src rsactor-derive > /tmp/confirm.$$.diff
if diff -q /tmp/confirm.$$.diff seed/patch.diff >/dev/null; then echo "PATCH_MATCHES=yes" >> "$LOG"; else echo "PATCH_MATCHES=no" >> "$LOG"; fi
rm -f /tmp/confirm.$$.diff
mkdir -p "$WT/.aside"
[ -f tests/seed_demo.rs ] && mv tests/seed_demo.rs .aside/seed_demo.rs
echo "== suite with change" >> "$LOG"
if CARGO_NET_OFFLINE=true cargo test --workspace --offline --no-fail-fast >> "$LOG.suite" 2>&1; then echo "SUITE_WITH_CHANGE=pass" >> "$LOG"; else echo "SUITE_WITH_CHANGE=FAIL" >> "$LOG"; fi
grep -E "^test result" "$LOG.suite" | awk '{p+=$4; f+=$6} END {print "suite totals: passed=" p " failed=" f}' >> "$LOG"
cp seed/seed_demo.rs tests/seed_demo.rs
echo "== demo with change" >> "$LOG"
if CARGO_NET_OFFLINE=true bash -c "$DEMO_CMD" >> "$LOG.demo1" 2>&1; then echo "DEMO_WITH_CHANGE=pass(unexpected)" >> "$LOG"; else echo "DEMO_WITH_CHANGE=fail(expected)" >> "$LOG"; fi
git apply -R seed/patch.diff
echo "== demo without change" >> "$LOG"
if CARGO_NET_OFFLINE=true bash -c "$DEMO_CMD" >> "$LOG.demo2" 2>&1; then echo "DEMO_WITHOUT_CHANGE=pass(expected)" >> "$LOG"; else echo "DEMO_WITHOUT_CHANGE=FAIL(unexpected)" >> "$LOG"; fi
git apply seed/patch.diff
echo "DONE" >> "$LOG"
