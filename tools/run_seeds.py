#!/usr/bin/env python3
"""Regression over the seeded changes: applies each /verif/seeded/<name>/patch.diff to a scratch
copy of /repo (outside /repo and /verif), runs the check of the property it breaks and reports
whether it fires. Usage: run_seeds.py [name-substring ...]"""
import json, os, shutil, subprocess, sys, tempfile
VERIF = os.path.dirname(os.path.dirname(os.path.abspath(__file__)))
names = sorted(os.listdir(os.path.join(VERIF, "seeded")))
sel = [a for a in sys.argv[1:] if not a.startswith("--")]
scratch = tempfile.mkdtemp(prefix="rsav-seeds-")
missed = []
try:
    for n in names:
        if sel and not any(s in n for s in sel):
            continue
        d = os.path.join(VERIF, "seeded", n)
        meta = json.load(open(os.path.join(d, "meta.json")))
        prop = meta["property"]
        repo = os.path.join(scratch, "repo-" + n)      # one directory per seed: cargo's mtime-based freshness must not see a stale proc-macro
        subprocess.check_call(["rsync", "-a", "--exclude", "target", "--exclude", ".git", "/repo/", repo + "/"])
        subprocess.check_call("find . -name '*.rs' -o -name '*.toml' | xargs touch", shell=True, cwd=repo)
        r = subprocess.run(["patch", "-p1", "-s", "-i", os.path.join(d, "patch.diff")], cwd=repo, stdout=subprocess.PIPE, stderr=subprocess.STDOUT, text=True)
        if r.returncode != 0:
            print("PATCH-FAILED %s: %s" % (n, r.stdout[-200:]))
            missed.append(n)
            continue
        r = subprocess.run([os.path.join(VERIF, "check"), prop], cwd=VERIF, env=dict(os.environ, RSAV_REPO=repo, RSAV_OUT_DIR=os.path.join(scratch, "out")), stdout=subprocess.PIPE, stderr=subprocess.STDOUT, text=True)
        rules = sorted({l.strip().split()[1] for l in r.stdout.splitlines() if l.strip().startswith("rule ")})
        ok = r.returncode == 1 and rules
        print("%s %-58s %s -> %s" % ("caught" if ok else "MISSED", n, prop, ",".join(rules)))
        if not ok:
            missed.append(n)
        shutil.rmtree(repo, ignore_errors=True)
        rf = os.path.join(d, "refactor.diff")
        if os.path.exists(rf):
            # round F: the slip sits inside a behaviour-preserving refactoring, on which the same check must be silent
            # (otherwise "caught" above would only mean that the check fails closed on the refactoring)
            repo = os.path.join(scratch, "repo-%s-refactoring" % n)
            subprocess.check_call(["rsync", "-a", "--exclude", "target", "--exclude", ".git", "/repo/", repo + "/"])
            subprocess.check_call("find . -name '*.rs' -o -name '*.toml' | xargs touch", shell=True, cwd=repo)
            subprocess.check_call(["patch", "-p1", "-s", "-i", rf], cwd=repo)
            r = subprocess.run([os.path.join(VERIF, "check"), prop], cwd=VERIF, env=dict(os.environ, RSAV_REPO=repo, RSAV_OUT_DIR=os.path.join(scratch, "out")), stdout=subprocess.PIPE, stderr=subprocess.STDOUT, text=True)
            print("%s %-58s %s on the refactoring alone" % ("silent" if r.returncode == 0 else "ALARM ", n, prop))
            if r.returncode != 0:
                missed.append(n + " (false alarm on the refactoring)")
            shutil.rmtree(repo, ignore_errors=True)
finally:
    shutil.rmtree(scratch, ignore_errors=True)
print("%d missed" % len(missed))
sys.exit(1 if missed else 0)
