#!/usr/bin/env python3
"""Runs every registered check against a scratch copy of the repository (RSAV_REPO) and prints
which rules fire. Evidence files of /verif are restored afterwards. Usage: run_all_against.py <repo-dir> [props]"""
import json, os, shutil, subprocess, sys, tempfile
VERIF = os.path.dirname(os.path.dirname(os.path.abspath(__file__)))
repo = sys.argv[1]
props = sys.argv[2].split(",") if len(sys.argv) > 2 else [c["property_id"] for c in json.load(open(os.path.join(VERIF, "MANIFEST.json")))["checks"]]
bk = tempfile.mkdtemp(prefix="rsav-ev-")
fired = {}
try:
    for p in props:
        r = subprocess.run([os.path.join(VERIF, "check"), p], cwd=VERIF, env=dict(os.environ, RSAV_REPO=repo, RSAV_OUT_DIR=bk), stdout=subprocess.PIPE, stderr=subprocess.STDOUT, text=True)
        rules = [l.strip() for l in r.stdout.splitlines() if l.strip().startswith("rule ")]
        if r.returncode != 0:
            fired[p] = rules or [r.stdout[-300:]]
        print("%s rc=%d %s" % (p, r.returncode, ("; ".join(x[:230] for x in rules[:4])) if rules else ""))
finally:
    shutil.rmtree(bk, ignore_errors=True)
print("FIRED:", json.dumps({k: len(v) for k, v in fired.items()}))
