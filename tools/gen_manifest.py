#!/usr/bin/env python3
"""Regenerates /verif/MANIFEST.json from engine/meta.py and the rule modules that exist."""
import importlib
import json
import os
import sys

VERIF = os.path.dirname(os.path.dirname(os.path.abspath(__file__)))
sys.path.insert(0, os.path.join(VERIF, "engine"))
import meta  # noqa: E402

props = [json.loads(l) for l in open(os.path.join(VERIF, "properties.jsonl"))]
checks = []
na = []
for p in props:
    pid = p["id"]
    m = meta.CHECKS.get(pid)
    have = os.path.exists(os.path.join(VERIF, "engine", "rules", pid.lower() + ".py"))
    if m and have and not m.get("disabled"):
        checks.append({
            "property_id": pid,
            "quick_cmd": "./check %s --tier quick" % pid,
            "thorough_cmd": "./check %s --tier thorough" % pid,
            "evidence_file": "/verif/evidence/%s.json" % pid,
            "replay_cmd_template": "./check %s --explain {path}" % pid,
            "engine": "rsav",
            "level_claimed": {"category": m.get("level", "other"), "text": m["text"], "design_ref": m.get("design_ref", "DESIGN.md section 6, " + pid)},
            "level_note": m["note"],
            "technique": m["technique"],
        })
    else:
        na.append({"property_id": pid, "reason": (m or {}).get("na_reason") or meta.NOT_YET})
man = {
    "version": 1,
    "setup_cmd": "python3 engine/extract.py",
    "hooks": {
        "guard": "rsactor_verif",
        "enable": "none needed: the static analysis reads unmodified sources (guard name reserved, unused)",
        "baseline_off_cmd": "cd /repo && cargo test --workspace --no-fail-fast --offline",
        "source_commits": [],
        "add_only": True,
    },
    "engines": [
        {"name": "rsav", "path": "/verif/driver + /verif/engine",
         "serves_properties": [c["property_id"] for c in checks],
         "kind_free_text": "static analysis: rustc_private MIR/type fact extractor (pre-coroutine-lowering MIR, coroutine layouts, select!-DSL sites) + Python rule engine (dominators, provenance, abstract reachability over a finite store, decision tables, who-may-call, forwarder and sibling checks)"},
    ],
    "checks": checks,
    "not_applicable": na,
    "notes": meta.NOTES,
}
with open(os.path.join(VERIF, "MANIFEST.json"), "w") as fh:
    json.dump(man, fh, indent=1)
    fh.write("\n")
print("MANIFEST: %d checks, %d not_applicable" % (len(checks), len(na)))
