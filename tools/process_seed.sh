#!/bin/bash
# process_seed.sh <ID>: patched scratch copy of /repo from the agent's patch, all checks against it, and confirmation in the worktree.
ID="$1"
WT=${SEEDBASE:-/tmp/seed}/$ID
SRC=/tmp/seedsrc/$ID
mkdir -p /tmp/seedsrc; rm -rf "$SRC"
rsync -a --exclude target --exclude .git /repo/ "$SRC/" && (cd "$SRC" && patch -p1 -s < "$WT/seed/patch.diff" && find . -name '*.rs' -o -name '*.toml' | xargs touch) || { echo "PATCH FAILED"; exit 1; }
(nohup /verif/tools/confirm_seed.sh "$WT" > /dev/null 2>&1 &)
python3 /verif/tools/run_all_against.py "$SRC" 2>&1 | grep -v "rc=0" | cut -c1-${2:-600}
