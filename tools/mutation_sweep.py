#!/usr/bin/env python3
"""Systematic mutation sweep (checker self-validation, not part of any registered check).

Generates single-token mutants of the library sources with a small Rust-aware scanner (comments and string
literals are skipped, `#[cfg(test)] mod tests` tails are excluded), and for each mutant, in a scratch copy outside
/repo and /verif:
  1. `cargo check --all-features` (drop mutants that do not compile),
  2. all registered checks (quick tier) against the mutant (RSAV_REPO / RSAV_OUT_DIR / RSAV_TARGET_DIR),
  3. with --tests: for mutants that NO check reports, the repository's test suite (default features and all
     features), to tell 'survives the tests too' (a candidate gap or an equivalent mutant: triage by hand) from
     'killed by the existing tests' (out of scope: the checks target what the tests cannot see).
Results are appended as JSON lines to <out>/results.jsonl; `report` prints the summary.

Usage: mutation_sweep.py gen <out> [--cfg]      # writes <out>/mutants.json (--cfg: mutations of #[cfg(feature)] attributes instead)
       mutation_sweep.py run <out> [--workers N] [--tests] [--only FILE_SUBSTR] [--limit N]
       mutation_sweep.py report <out>
"""
import concurrent.futures as cf
import json, os, re, shutil, subprocess, sys, threading, time

VERIF = os.path.dirname(os.path.dirname(os.path.abspath(__file__)))
REPO = "/repo"
FILES = ["src/actor.rs", "src/actor_ref.rs", "src/lib.rs", "src/handler.rs", "src/actor_control.rs", "src/actor_result.rs",
         "src/error.rs", "src/dead_letter.rs", "src/metrics/collector.rs", "src/metrics/snapshot.rs", "rsactor-derive/src/lib.rs"]
LOGM = ("trace!", "debug!", "info!", "warn!", "error!", "tracing::trace!", "tracing::debug!", "tracing::info!", "tracing::warn!",
        "tracing::error!", "debug_span!", "info_span!", "trace_span!", "tracing::info_span!", "tracing::debug_span!")


def scan(src):
    """Yields (start, end, kind, text) for code tokens; comments, strings, chars are skipped."""
    i, n = 0, len(src)
    while i < n:
        c = src[i]
        if src.startswith("//", i):
            j = src.find("\n", i)
            i = n if j < 0 else j
        elif src.startswith("/*", i):
            depth, j = 1, i + 2
            while j < n and depth:
                if src.startswith("/*", j):
                    depth += 1; j += 2
                elif src.startswith("*/", j):
                    depth -= 1; j += 2
                else:
                    j += 1
            i = j
        elif c == '"' or (c in "br" and re.match(r'b?r?#*"', src[i:i + 6])):
            m = re.match(r'(b?)(r?)(#*)"', src[i:])
            raw, hashes = m.group(2), m.group(3)
            j = i + m.end()
            if raw:
                end = '"' + hashes
                k = src.find(end, j)
                i = n if k < 0 else k + len(end)
            else:
                while j < n and src[j] != '"':
                    j += 2 if src[j] == "\\" else 1
                i = j + 1
        elif c == "'":
            m = re.match(r"'(\\.[^']*|[^'\\])'", src[i:])
            if m:
                i += m.end()
            else:                      # lifetime
                m = re.match(r"'[A-Za-z_][A-Za-z0-9_]*", src[i:])
                i += m.end() if m else 1
        elif c.isalpha() or c == "_":
            m = re.match(r"[A-Za-z_][A-Za-z0-9_]*", src[i:])
            yield (i, i + m.end(), "ident", m.group(0))
            i += m.end()
        elif c.isdigit():
            m = re.match(r"[0-9][0-9_]*(\.[0-9]+)?([a-z][a-z0-9]*)?", src[i:])
            yield (i, i + m.end(), "num", m.group(0))
            i += m.end()
        elif c.isspace():
            i += 1
        else:
            for op in ("==", "!=", ">=", "<=", "&&", "||", "->", "=>", "::", "..", "+=", "-="):
                if src.startswith(op, i):
                    yield (i, i + len(op), "op", op)
                    i += len(op)
                    break
            else:
                yield (i, i + 1, "op", c)
                i += 1


def excluded_ranges(src):
    """Byte ranges not to mutate: `#[cfg(test)]` module tails, and the argument lists of logging macros (kept separately)."""
    tests_from = len(src)
    m = re.search(r"#\[cfg\(test\)\]\s*(pub\s+)?mod\s+\w+\s*\{", src)
    if m:
        tests_from = m.start()
    logs = []
    for m in re.finditer(r"\b((?:tracing::)?(?:trace|debug|info|warn|error|debug_span|info_span|trace_span))!\s*\(", src):
        depth, j = 1, m.end()
        while j < len(src) and depth:
            if src[j] == "(":
                depth += 1
            elif src[j] == ")":
                depth -= 1
            j += 1
        logs.append((m.start(), j))
    return tests_from, logs


ENUM_SWAPS = {
    "DeadLetterReason": ["ActorStopped", "Timeout", "ReplyDropped"],
    "FailurePhase": ["OnStart", "OnRun", "OnStop", "OnRunThenOnStop"],
}
IDENT_SWAPS = {"true": ["false"], "false": ["true"], "is_err": ["is_ok"], "is_ok": ["is_err"], "is_some": ["is_none"], "is_none": ["is_some"],
               "break": ["continue"], "continue": ["break"], "fetch_add": ["fetch_sub"], "fetch_max": ["fetch_min"], "min": ["max"], "max": ["min"],
               "blocking_send": ["try_send"], "unwrap_or": ["unwrap_or_default"], "killed": ["!killed"], "is_closed": ["is_empty"],
               "strong_count": ["weak_count"], "saturating_add": ["wrapping_add"], "checked_add": ["wrapping_add"],
               # same-shape API swaps (second sweep)
               "enable_time": ["enable_io"], "new_current_thread": ["new_multi_thread"], "blocking_recv": ["try_recv"],
               "enable_all": ["enable_io"], "recv": ["try_recv"], "upgrade": ["clone"], "downgrade": ["clone"], "closed": ["reserve"],
               "copied": ["cloned"], "take": ["clone"], "elapsed": ["duration_since"], "as_nanos": ["as_micros", "subsec_nanos"],
               "from_nanos": ["from_micros"], "from_millis": ["from_secs"], "as_millis": ["as_secs"], "insert": ["remove"], "remove": ["get"],
               "get": ["remove"], "len": ["capacity"], "is_empty": ["is_closed"], "try_send": ["blocking_send"], "try_with": ["with"],
               "sync_scope": ["scope"], "identity": ["clone"], "unwrap": ["unwrap_or_default"], "ok": ["err"], "map": ["and_then"],
               "Some": ["None"], "Ok": ["Err"], "Err": ["Ok"], "Ready": ["Pending"]}
OP_SWAPS = {"==": ["!="], "!=": ["=="], ">=": [">"], "<=": ["<"], "&&": ["||"], "||": ["&&"], "+=": ["-="], "-=": ["+="]}


def gen_file(rel):
    src = open(os.path.join(REPO, rel)).read()
    tests_from, logs = excluded_ranges(src)
    toks = [t for t in scan(src) if t[0] < tests_from]
    out = []

    def add(s, e, new, op):
        line = src.count("\n", 0, s) + 1
        in_log = any(a <= s < b for a, b in logs)
        ls = src.rfind("\n", 0, s) + 1
        le = src.find("\n", s)
        out.append({"file": rel, "start": s, "end": e, "new": new, "op": op, "line": line, "in_log": in_log,
                    "text": src[ls:le].strip()[:160], "old": src[s:e]})
    for idx, (s, e, k, t) in enumerate(toks):
        prev = toks[idx - 1] if idx else None
        nxt = toks[idx + 1] if idx + 1 < len(toks) else None
        if k == "ident" and t in IDENT_SWAPS:
            if t in ("min", "max", "killed") and not (prev and prev[3] == "." or t == "killed"):
                continue
            if t == "killed":
                # only uses as a value (argument / field init shorthand is not mutated), not the declaration or assignment target
                if (prev and prev[3] in ("let", "mut", "!")) or (nxt and nxt[3] in ("=", ":")) or (prev and prev[3] == "."):
                    continue
            for new in IDENT_SWAPS[t]:
                add(s, e, new, "ident:%s->%s" % (t, new))
        elif k == "ident" and t in ENUM_SWAPS and nxt and nxt[3] == "::" and idx + 2 < len(toks):
            v = toks[idx + 2]
            if v[3] in ENUM_SWAPS[t]:
                for alt in ENUM_SWAPS[t]:
                    if alt != v[3]:
                        add(v[0], v[1], alt, "variant:%s::%s->%s" % (t, v[3], alt))
        elif k == "op" and t in OP_SWAPS:
            if t == "||" and nxt and nxt[3] in ("{", "async"):
                continue            # closure without parameters
            for new in OP_SWAPS[t]:
                add(s, e, new, "op:%s->%s" % (t, new))
        elif k == "op" and t in (">", "<") and src[s - 1:s] == " " and src[e:e + 1] == " " and prev and prev[2] in ("ident", "num") or \
                (k == "op" and t in (">", "<") and src[s - 1:s] == " " and src[e:e + 1] == " " and prev and prev[3] == ")"):
            add(s, e, t + "=", "op:%s->%s=" % (t, t))
            add(s, e, "<" if t == ">" else ">", "op:flip%s" % t)
        elif k == "op" and t == "!" and nxt and nxt[0] == e and (nxt[2] == "ident" or nxt[3] == "(") and \
                not (prev and prev[1] == s and prev[2] == "ident") and src[s - 1:s] in (" ", "(", "\n", "=", "|", "&"):
            add(s, e, "", "op:drop-not")
        elif k == "num" and re.fullmatch(r"[0-9]+", t) and not (prev and prev[3] in (".", "#")) and not (prev and prev[2] == "ident" and prev[1] == s):
            v = int(t)
            for new in sorted({v + 1, 0 if v else 1} - {v}):
                add(s, e, str(new), "num:%s->%d" % (t, new))
    import re as _re
    for m_ in _re.finditer(r"\bruntime\.block_on\(", src):
        if m_.start() < tests_from:
            add(m_.start(), m_.end(), "runtime.handle().block_on(", "api:handle-block_on")
    # whole-statement deletion: single-line expression statements
    off = 0
    for ln in src.split("\n"):
        st = ln.strip()
        s0 = off + (len(ln) - len(ln.lstrip()))
        if off < tests_from and st.endswith(";") and not st.startswith(("let ", "use ", "pub ", "type ", "const ", "static ", "#", "//", "mod ", "extern ", "}", ")", "]")) \
                and st.count("(") == st.count(")") and st.count("{") == st.count("}") and not st.startswith("."):
            add(s0, off + len(ln), "", "stmt-delete")
        off += len(ln) + 1
    # multi-line statement deletion: `foo(` ... `);` and `if cond {` ... `}` (no else) closed at the same indentation
    lines = src.split("\n")
    offs = [0]
    for ln in lines:
        offs.append(offs[-1] + len(ln) + 1)
    for i, ln in enumerate(lines):
        st = ln.strip()
        if offs[i] >= tests_from or not st or st.startswith(("//", "#", "let ", "pub ", "fn ", "async fn", "impl", "match ", "} else", "else")):
            continue
        ind = len(ln) - len(ln.lstrip())
        closer = None
        if st.endswith("(") and not st.startswith(("return", ".")):
            closer = (");",)
            op = "call-delete"
        elif st.startswith("if ") and st.endswith("{") and " let " not in st[:8]:
            closer = ("}",)
            op = "if-delete"
        if not closer:
            continue
        for j in range(i + 1, min(i + 40, len(lines))):
            lj = lines[j]
            if lj.strip() and len(lj) - len(lj.lstrip()) <= ind:
                if lj.strip() in closer and len(lj) - len(lj.lstrip()) == ind:
                    nxt_ = lines[j + 1].strip() if j + 1 < len(lines) else ""
                    if not nxt_.startswith("else"):
                        add(offs[i] + ind, offs[j] + len(lj), "", op)
                break
    # Some(x) -> None
    for idx, (s_, e_, k, t) in enumerate(toks):
        if k == "ident" and t == "Some" and idx + 3 < len(toks) and toks[idx + 1][3] == "(" and toks[idx + 2][2] == "ident" and toks[idx + 3][3] == ")" \
                and not (idx and toks[idx - 1][3] in ("let", "|", "=>")):
            add(s_, toks[idx + 3][1], "None", "some->none")
    return out


CFG_LINE = re.compile(r'^(\s*)#\[cfg\((not\()?feature = "([a-z-]+)"\)?\)\]\s*$')
FEATURES = ["tracing", "metrics", "test-utils", "deadlock-detection"]


def gen_cfg(rel):
    """Mutations of `#[cfg(feature = ..)]` attribute lines: delete, negate, name another feature."""
    src = open(os.path.join(REPO, rel)).read()
    out = []
    off = 0
    lines = src.splitlines(True)
    for i, ln in enumerate(lines):
        m = CFG_LINE.match(ln.rstrip("\n"))
        if m:
            ind, neg, feat = m.group(1), bool(m.group(2)), m.group(3)
            nxt = lines[i + 1].strip() if i + 1 < len(lines) else ""

            def add(new, op):
                out.append({"file": rel, "start": off, "end": off + len(ln), "new": new, "op": op, "line": i + 1, "in_log": False,
                            "text": ("%s | %s" % (ln.strip(), nxt))[:160], "old": ln})
            add("", "cfg-delete")
            add('%s#[cfg(%sfeature = "%s"%s)]\n' % (ind, "" if neg else "not(", feat, "" if neg else ")"), "cfg-negate")
            for f2 in FEATURES:
                if f2 != feat:
                    add('%s#[cfg(%sfeature = "%s"%s)]\n' % (ind, "not(" if neg else "", f2, ")" if neg else ""), "cfg-feature:%s->%s" % (feat, f2))
        off += len(ln)
    return out


def cmd_gen(out, cfg=False):
    os.makedirs(out, exist_ok=True)
    ms = []
    for rel in FILES:
        ms += gen_cfg(rel) if cfg else gen_file(rel)
    for i, m in enumerate(ms):
        m["id"] = i
    json.dump(ms, open(os.path.join(out, "mutants.json"), "w"), indent=0)
    by = {}
    for m in ms:
        by[m["file"]] = by.get(m["file"], 0) + 1
    print(len(ms), "mutants", by)


def sh(cmd, cwd, env=None, timeout=None):
    """Runs a command in its own process group; on timeout the whole group is killed (a mutant can make a test binary spin)."""
    import signal
    p = subprocess.Popen(cmd, cwd=cwd, env=env, stdout=subprocess.PIPE, stderr=subprocess.STDOUT, text=True, start_new_session=True)
    try:
        out, _ = p.communicate(timeout=timeout)
        return p.returncode, out
    except subprocess.TimeoutExpired:
        try:
            os.killpg(p.pid, signal.SIGKILL)
        except OSError:
            pass
        try:
            out, _ = p.communicate(timeout=10)
        except Exception:
            out = ""
        return 124, out or ""


class Worker:
    def __init__(self, root, k):
        self.dir = os.path.join(root, "w%d" % k)
        self.repo = os.path.join(self.dir, "repo")
        self.out = os.path.join(self.dir, "out")
        self.tgt = os.path.join(self.dir, "tgt")
        os.makedirs(self.dir, exist_ok=True)
        if not os.path.isdir(self.repo):
            subprocess.check_call(["rsync", "-a", "--exclude", "target", "--exclude", ".git", REPO + "/", self.repo + "/"])
        self.props = [c["property_id"] for c in json.load(open(os.path.join(VERIF, "MANIFEST.json")))["checks"]]

    def apply(self, m):
        for rel in FILES:
            shutil.copyfile(os.path.join(REPO, rel), os.path.join(self.repo, rel))
        p = os.path.join(self.repo, m["file"])
        src = open(p).read()
        assert src[m["start"]:m["end"]] == m["old"], "stale mutant list"
        open(p, "w").write(src[:m["start"]] + m["new"] + src[m["end"]:])

    def process(self, m, tests):
        t0 = time.time()
        self.apply(m)
        env = dict(os.environ, CARGO_NET_OFFLINE="true", CARGO_TARGET_DIR=os.path.join(self.dir, "cargo-target"), RUSTFLAGS="-Awarnings")
        rc, o = sh(["cargo", "check", "--offline", "-q", "--all-features", "--workspace", "--lib"], self.repo, env, 600)
        res = {"id": m["id"], "file": m["file"], "line": m["line"], "op": m["op"], "text": m["text"], "in_log": m["in_log"]}
        if rc != 0:
            res["status"] = "nocompile"
            return res
        rc, o = sh(["cargo", "check", "--offline", "-q", "--workspace", "--lib"], self.repo, env, 600)
        if rc != 0:
            res["status"] = "nocompile"
            return res
        cenv = dict(os.environ, RSAV_REPO=self.repo, RSAV_OUT_DIR=self.out, RSAV_TARGET_DIR=self.tgt)
        fired = {}
        props = [p for p in self.props if p != "C19" or m["file"] in ("rsactor-derive/src/lib.rs", "src/lib.rs")]
        broken = []
        for p in props:
            rc, o = sh([os.path.join(VERIF, "check"), p], VERIF, cenv, 900)
            rules = sorted({l.strip().split()[1] for l in o.splitlines() if l.strip().startswith("rule ")})
            if rc == 1 and rules:
                fired[p] = rules
            elif rc != 0:
                broken.append((p, rc, o[-300:]))
        res["fired"] = fired
        if broken:
            res["broken"] = broken
        res["status"] = "detected" if fired or broken else "undetected"
        if res["status"] == "undetected" and tests:
            rc1, o1 = sh(["cargo", "test", "--workspace", "--offline", "--no-fail-fast", "-q"], self.repo, env, 900)
            killed = rc1 != 0
            failed = re.findall(r"^test (\S+) \.\.\. FAILED", o1, re.M)[:5] if killed else []
            if not killed:
                rc2, o2 = sh(["cargo", "test", "--workspace", "--offline", "--no-fail-fast", "-q", "--all-features"], self.repo, env, 900)
                killed = rc2 != 0
                failed = re.findall(r"^test (\S+) \.\.\. FAILED", o2, re.M)[:5] if killed else []
                if rc2 == 124:
                    failed = ["<timeout>"]
            elif rc1 == 124:
                failed = ["<timeout>"]
            res["tests"] = "killed" if killed else "survived"
            res["tests_failed"] = failed
        res["secs"] = round(time.time() - t0, 1)
        return res


def cmd_run(out, workers, tests, only, limit):
    ms = json.load(open(os.path.join(out, "mutants.json")))
    done = set()
    rp = os.path.join(out, "results.jsonl")
    if os.path.exists(rp):
        for l in open(rp):
            r = json.loads(l)
            if not tests or r.get("status") != "undetected" or "tests" in r:
                done.add(r["id"])
    todo = [m for m in ms if m["id"] not in done and (not only or only in m["file"])]
    if limit:
        todo = todo[:limit]
    print("%d to do" % len(todo))
    lock = threading.Lock()
    ws = [Worker(out, k) for k in range(workers)]
    free = list(ws)

    def job(m):
        with lock:
            w = free.pop()
        try:
            try:
                r = w.process(m, tests)
            except Exception as e:
                r = {"id": m["id"], "file": m["file"], "line": m["line"], "op": m["op"], "status": "error", "err": repr(e)[:300]}
            with lock:
                with open(rp, "a") as fh:
                    fh.write(json.dumps(r) + "\n")
                print("%5d %-11s %s:%d %s %s %s" % (m["id"], r["status"], m["file"], m["line"], m["op"], r.get("tests", ""), json.dumps(r.get("fired", {}))[:120]))
                sys.stdout.flush()
        finally:
            with lock:
                free.append(w)
    with cf.ThreadPoolExecutor(max_workers=workers) as ex:
        list(ex.map(job, todo))


def cmd_report(out):
    last = {}
    for l in open(os.path.join(out, "results.jsonl")):
        r = json.loads(l)
        last[r["id"]] = r
    st = {}
    for r in last.values():
        k = r["status"] + ("/" + r["tests"] if "tests" in r else "")
        st[k] = st.get(k, 0) + 1
    print(json.dumps(st, indent=1))
    print("--- undetected by every check AND surviving the test suite (triage by hand):")
    for r in sorted(last.values(), key=lambda r: (r["file"], r["line"])):
        if r["status"] == "undetected" and r.get("tests") == "survived":
            print("%5d %s:%d %-22s %s%s" % (r["id"], r["file"], r["line"], r["op"], "[log] " if r.get("in_log") else "", r.get("text", "")[:110]))
    print("--- detected inside logging macros (possible false alarms):")
    for r in last.values():
        if r["status"] == "detected" and r.get("in_log"):
            print("%5d %s:%d %s %s" % (r["id"], r["file"], r["line"], r["op"], json.dumps(r.get("fired"))[:200]))
    print("--- broken checks:")
    for r in last.values():
        if r.get("broken"):
            print("%5d %s:%d %s %s" % (r["id"], r["file"], r["line"], r["op"], str(r["broken"])[:300]))


if __name__ == "__main__":
    a = sys.argv[1:]
    if a[0] == "gen":
        cmd_gen(a[1], "--cfg" in a)
    elif a[0] == "run":
        w = int(a[a.index("--workers") + 1]) if "--workers" in a else 4
        only = a[a.index("--only") + 1] if "--only" in a else None
        lim = int(a[a.index("--limit") + 1]) if "--limit" in a else None
        cmd_run(a[1], w, "--tests" in a, only, lim)
    elif a[0] == "report":
        cmd_report(a[1])
