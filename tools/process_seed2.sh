#!/bin/bash
# process_seed2.sh <ID>: round-F seeds come as a behaviour-preserving refactoring (seed/refactor.diff) and the same
# refactoring plus a slip (seed/patch.diff). Runs all checks against both: the first must be silent, the second must
# be reported. Also confirms the seed in its worktree (confirm_seed.sh) and that the demo passes on the refactoring alone.
ID="$1"
WT=${SEEDBASE:-/tmp/seed6}/$ID
mkdir -p /tmp/seedsrc
for kind in refactor patch; do
  SRC=/tmp/seedsrc/$ID-$kind
  rm -rf "$SRC"
  rsync -a --exclude target --exclude .git /repo/ "$SRC/" && (cd "$SRC" && patch -p1 -s < "$WT/seed/$kind.diff" && find . -name '*.rs' -o -name '*.toml' | xargs touch) || { echo "PATCH FAILED ($kind)"; exit 1; }
done
(nohup bash -c "/verif/tools/confirm_seed.sh '$WT'; cd '$WT' && git apply -R seed/patch.diff && git apply seed/refactor.diff && DEMO=\$(python3 -c \"import json;print(json.load(open('seed/meta.json'))['demo_cmd'])\") && (if CARGO_NET_OFFLINE=true bash -c \"\$DEMO\" >> confirm.log.demo3 2>&1; then echo DEMO_WITH_REFACTORING_ONLY=pass\\(expected\\) >> confirm.log; else echo DEMO_WITH_REFACTORING_ONLY=FAIL\\(unexpected\\) >> confirm.log; fi); git apply -R seed/refactor.diff; git apply seed/patch.diff; echo DONE2 >> confirm.log" > /dev/null 2>&1 &)
echo "== refactoring alone (must be silent)"
python3 /verif/tools/run_all_against.py /tmp/seedsrc/$ID-refactor 2>&1 | grep -v "rc=0" | cut -c1-${2:-600}
echo "== refactoring + slip (must be reported)"
python3 /verif/tools/run_all_against.py /tmp/seedsrc/$ID-patch 2>&1 | grep -v "rc=0" | cut -c1-${2:-600}
rm -rf /tmp/seedsrc/$ID-refactor /tmp/seedsrc/$ID-patch
