#!/usr/bin/env python3
"""Stores a confirmed sub-agent seed under /verif/seeded/<name>/ (patch.diff, demo, meta.json).
Usage: store_seed.py <worktree> <name> '<json: {prop: [rules]}>'"""
import json, os, shutil, sys
wt, name, caught = sys.argv[1], sys.argv[2], json.loads(sys.argv[3])
dst = os.path.join(os.path.dirname(os.path.dirname(os.path.abspath(__file__))), "seeded", name)
os.makedirs(dst, exist_ok=True)
shutil.copy(os.path.join(wt, "seed", "patch.diff"), os.path.join(dst, "patch.diff"))
shutil.copy(os.path.join(wt, "seed", "seed_demo.rs"), os.path.join(dst, "seed_demo.rs"))
meta = json.load(open(os.path.join(wt, "seed", "meta.json")))
if os.path.exists(os.path.join(wt, "seed", "refactor.diff")):      # round F: refactoring alone (must be silent) + refactoring with a slip
    shutil.copy(os.path.join(wt, "seed", "refactor.diff"), os.path.join(dst, "refactor.diff"))
conf = {}
for l in open(os.path.join(wt, "confirm.log")):
    if "=" in l and not l.startswith("=="):
        k, v = l.strip().split("=", 1)
        conf[k] = v
    if l.startswith("suite totals"):
        conf["suite_totals"] = l.strip()
out = {
    "property": meta.get("property"),
    "breaks": meta.get("summary"),
    **({"refactoring": meta.get("refactoring")} if meta.get("refactoring") else {}),
    "needs_to_manifest": meta.get("needs"),
    "demo_cmd": meta.get("demo_cmd"),
    "origin": "independent sub-agent given only the property text and a scratch git worktree of /repo",
    "agent_ran": meta.get("ran"),
    "confirmed_by_me": {
        "how": "tools/confirm_seed.sh in the scratch worktree: recorded patch == git diff; `cargo test --workspace --offline --no-fail-fast` with the change; demo with the change; demo with the change reverted",
        **conf,
    },
    "caught_by": caught,
}
json.dump(out, open(os.path.join(dst, "meta.json"), "w"), indent=1)
print("stored", dst)
