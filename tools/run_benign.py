#!/usr/bin/env python3
"""False-alarm test: applies each behaviour-preserving patch (*.diff in the given directories) to its own scratch
copy of /repo (outside /repo and /verif), runs all 20 checks (quick tier; --thorough for the thorough tier) against
it and reports every rule that fires. Reports and evidence of these runs go to the scratch directory (RSAV_OUT_DIR),
never to /verif/evidence. Usage: run_benign.py [--thorough] [--props=C01,C02] <dir-or-diff> ..."""
import concurrent.futures as cf
import glob, json, os, shutil, subprocess, sys, tempfile
VERIF = os.path.dirname(os.path.dirname(os.path.abspath(__file__)))
args = [a for a in sys.argv[1:] if not a.startswith("--")]
tier = "thorough" if "--thorough" in sys.argv else "quick"
props = [c["property_id"] for c in json.load(open(os.path.join(VERIF, "MANIFEST.json")))["checks"]]
for a in sys.argv[1:]:
    if a.startswith("--props="):
        props = a.split("=", 1)[1].split(",")
patches = []
for a in args:
    patches += sorted(glob.glob(os.path.join(a, "*.diff"))) if os.path.isdir(a) else [a]
scratch = tempfile.mkdtemp(prefix="rsav-benign-")


def run_check(p, repo, out):
    r = subprocess.run([os.path.join(VERIF, "check"), p, "--tier", tier], cwd=VERIF, env=dict(os.environ, RSAV_REPO=repo, RSAV_OUT_DIR=out),
                       stdout=subprocess.PIPE, stderr=subprocess.STDOUT, text=True)
    rules = [l.strip() for l in r.stdout.splitlines() if l.strip().startswith("rule ")]
    return p, r.returncode, rules, r.stdout


alarms = 0
try:
    for pt in patches:
        name = os.path.basename(os.path.dirname(os.path.dirname(pt))) + "/" + os.path.basename(pt)
        repo = os.path.join(scratch, "repo-%d" % patches.index(pt))
        out = os.path.join(scratch, "out")
        subprocess.check_call(["rsync", "-a", "--exclude", "target", "--exclude", ".git", "--exclude", "patches", "/repo/", repo + "/"])
        subprocess.check_call("find . -name '*.rs' -o -name '*.toml' | xargs touch", shell=True, cwd=repo)
        r = subprocess.run(["patch", "-p1", "-s", "-i", os.path.abspath(pt)], cwd=repo, stdout=subprocess.PIPE, stderr=subprocess.STDOUT, text=True)
        if r.returncode != 0:
            print("PATCH-FAILED %s: %s" % (name, r.stdout[-200:]))
            continue
        res = [run_check(props[0], repo, out)]          # first one alone: fills the fact cache for this tree
        with cf.ThreadPoolExecutor(max_workers=6) as ex:
            res += list(ex.map(lambda p: run_check(p, repo, out), props[1:]))
        bad = [(p, rc, rules, o) for p, rc, rules, o in res if rc != 0]
        if not bad:
            print("silent  %s" % name)
        else:
            alarms += 1
            print("ALARM   %s" % name)
            for p, rc, rules, o in bad:
                for x in (rules or [o[-400:]])[:6]:
                    print("        %s rc=%d %s" % (p, rc, x[:420]))
        sys.stdout.flush()
        shutil.rmtree(repo, ignore_errors=True)
finally:
    shutil.rmtree(scratch, ignore_errors=True)
print("%d patch(es), %d with alarms" % (len(patches), alarms))
sys.exit(1 if alarms else 0)
