#!/bin/bash
# Runs every check of MANIFEST.json against /repo in the given tier (default: both), 4 at a time; prints one line per check.
cd "$(dirname "$0")/.."
tiers="${1:-quick thorough}"
for t in $tiers; do
  for i in 01 02 03 04 05 06 07 08 09 10 11 12 13 14 15 16 17 18 19 20; do echo "C$i $t"; done
done | xargs -P 4 -L 1 sh -c './check $0 --tier $1 > /tmp/rsav-runall-$0-$1.log 2>&1; echo "$0 $1 rc=$? $(tail -1 /tmp/rsav-runall-$0-$1.log)"; rm -f /tmp/rsav-runall-$0-$1.log' | sort
