"""Generator of the macro corpus for C19: handler programs drawn from the grammar
return-type spelling x attribute option x actor shape x message shape x extra methods x
derive/manual Actor, each with its oracle row (independent statement of the decision table),
plus negative programs (must fail to compile with the macro's own diagnostic)."""
import itertools
import random

# name, type text ('' = no return type), value expression, syntactic Result?, usable with #[handler(result)]
RETURNS = [
    ("none", "", "", False, False),
    ("unit", "()", "()", False, False),
    ("u32", "u32", "7u32", False, False),
    ("string", "String", "String::from(\"x\")", False, False),
    ("tuple", "(u32, String)", "(1u32, String::new())", False, False),
    ("option", "Option<u32>", "Some(1u32)", False, False),
    ("vec", "Vec<u8>", "vec![1u8]", False, False),
    ("result", "Result<u32, String>", "Ok(1u32)", True, True),
    ("std_result", "std::result::Result<u32, String>", "Ok(1u32)", True, True),
    ("anyhow", "anyhow::Result<u32>", "Ok(1u32)", True, True),
    ("alias", "MyRes", "Ok(1u32)", False, True),
    ("user_result", "Result", "Result(1u32)", True, False),   # a user struct that happens to be called Result
    ("joinhandle", "tokio::task::JoinHandle<u32>", "tokio::spawn(async { 1u32 })", False, False),
]
ATTRS = ["handler", "handler(result)", "handler(no_log)"]
ACTORS = ["named", "tuple", "unit", "enum", "generic", "generic_where"]
MESSAGES = ["plain", "generic_msg"]
EXTRA = [False, True]
ACTOR_IMPL = ["derive", "manual"]


def valid(ret, attr, actor):
    name, ty, val, syn, can_force = ret
    if attr == "handler(result)" and not can_force:
        return False
    if name == "user_result" and attr != "handler(no_log)":
        return False        # `if let Err(..)` on a struct named Result cannot compile: documented limitation, only no_log is valid
    return True


def expect_override(ret, attr):
    name, ty, val, syn, can_force = ret
    if attr == "handler(no_log)":
        return False
    if attr == "handler(result)":
        return True
    return syn


def all_programs():
    out = []
    for ret, attr, actor, msg, extra, aimpl in itertools.product(RETURNS, ATTRS, ACTORS, MESSAGES, EXTRA, ACTOR_IMPL):
        if valid(ret, attr, actor):
            out.append((ret, attr, actor, msg, extra, aimpl))
    return out


def actor_decl(actor, aimpl):
    derive = "#[derive(rsactor::Actor)]\n" if aimpl == "derive" else ""
    if actor == "named":
        d, ty, gen, ctor = "pub struct A { pub n: u32 }", "A", "", "A { n: 0 }"
    elif actor == "tuple":
        d, ty, gen, ctor = "pub struct A(pub u32);", "A", "", "A(0)"
    elif actor == "unit":
        d, ty, gen, ctor = "pub struct A;", "A", "", "A"
    elif actor == "enum":
        d, ty, gen, ctor = "pub enum A { On(u32), Off }", "A", "", "A::Off"
    elif actor == "generic":
        d, ty, gen, ctor = "pub struct A<T: Send + Clone + 'static> { pub v: T }", "A<T>", "<T: Send + Clone + 'static>", "A { v: 0u8 }"
    else:
        d, ty, gen, ctor = "pub struct A<T> where T: Send + Clone + 'static { pub v: T }", "A<T>", "<T>", "A { v: 0u8 }"
    where = " where T: Send + Clone + 'static" if actor == "generic_where" else ""
    manual = ""
    if aimpl == "manual":
        manual = ("impl%s rsactor::Actor for %s%s {\n    type Args = Self;\n    type Error = std::convert::Infallible;\n"
                  "    async fn on_start(args: Self::Args, _r: &rsactor::ActorRef<Self>) -> std::result::Result<Self, Self::Error> { Ok(args) }\n}\n") % (gen, ty, where)
    return derive + d + "\n" + manual, ty, gen, where


# ---- several handlers with different options in ONE #[message_handlers] block: the options of one handler must not leak
# into the next (each handler's row of the table is decided on its own)
MULTI_BASE = [("u32", "handler"), ("u32", "handler(no_log)"), ("result", "handler"), ("result", "handler(result)"),
              ("result", "handler(no_log)"), ("alias", "handler(result)"), ("alias", "handler")]


def multi_specs(tier):
    rets = {r[0]: r for r in RETURNS}
    base = [(rets[r], a) for r, a in MULTI_BASE]
    out = [("multi", [x, y]) for x in base for y in base]
    if tier == "thorough":
        four = [base[0], base[2], base[3], base[4]]
        out += [("multi", [x, y, z]) for x in four for y in four for z in four]
    return out


def program_multi(idx, handlers):
    pre = "pub type MyRes = std::result::Result<u32, String>;\n"
    decl = "#[derive(rsactor::Actor)]\npub struct A;\n"
    msgs = "".join("pub struct M%d(pub u32);\n" % i for i in range(len(handlers)))
    meths = ""
    rows = []
    for i, (ret, attr) in enumerate(handlers):
        rname, rty, rval, syn, _ = ret
        arrow = (" -> " + rty) if rty else ""
        meths += "        #[%s]\n        pub async fn h%d(&mut self, _msg: M%d, _r: &ActorRef<Self>)%s {\n            %s\n        }\n" % (attr, i, i, arrow, rval)
        if i == 0:
            meths += "        pub fn helper(&self) -> u32 { 1 }\n"
        rows.append({"name": "h%d" % i, "msg_ty": "M%d" % i, "ret": rname, "attr": attr, "expect_override": expect_override(ret, attr)})
    src = ("pub mod p%d {\n    #![allow(dead_code, unused_imports)]\n    use rsactor::ActorRef;\n%s%s%s\n"
           "    #[rsactor::message_handlers]\n    impl A {\n%s    }\n}\n") % (idx, _indent(pre), _indent(decl), _indent(msgs), meths)
    oracle = {"module": "p%d" % idx, "ret": "+".join(h["ret"] for h in rows), "ret_ty": "-", "attr": "+".join(h["attr"] for h in rows), "actor": "unit", "msg": "plain",
              "extra": True, "actor_impl": "derive", "expect_override": None, "msg_ty": None, "handlers": rows}
    return src, oracle


def program(idx, spec):
    if spec[0] == "multi":
        return program_multi(idx, spec[1])
    ret, attr, actor, msg, extra, aimpl = spec
    rname, rty, rval, syn, _ = ret
    decl, aty, gen, where = actor_decl(actor, aimpl)
    pre = ""
    if rname == "alias":
        pre += "pub type MyRes = std::result::Result<u32, String>;\n"
    if rname == "user_result":
        pre += "pub struct Result(pub u32);\n"
    if msg == "plain":
        mdecl, mty = "pub struct M(pub u32);", "M"
    else:
        mdecl, mty = "pub struct M<U>(pub U);", "M<u8>"
    arrow = (" -> " + rty) if rty else ""
    body = rval if rval else ""
    extra_m = "    pub fn helper(&self) -> u32 { 1 }\n    pub async fn not_a_handler(&mut self, _x: u32) -> u32 { 2 }\n" if extra else ""
    okk = "std::result::Result::Ok" if rname in ("user_result",) else "Ok"
    body = body.replace("Ok(", okk + "(") if rname != "user_result" else body
    src = ("pub mod p%d {\n    #![allow(dead_code, unused_imports)]\n    use rsactor::ActorRef;\n%s%s\n%s\n"
           "    #[rsactor::message_handlers]\n    impl%s %s%s {\n%s        #[%s]\n        pub async fn h(&mut self, _msg: %s, _r: &ActorRef<Self>)%s {\n            %s\n        }\n    }\n}\n") % (
        idx, _indent(pre), _indent(decl), _indent(mdecl), gen, aty, where, _indent(extra_m, 4) if extra_m else "", attr, mty, arrow, body)
    oracle = {
        "module": "p%d" % idx, "ret": rname, "ret_ty": rty or "()", "attr": attr, "actor": actor, "msg": msg, "extra": extra, "actor_impl": aimpl,
        "expect_override": expect_override(ret, attr), "msg_ty": mty,
    }
    return src, oracle


def _indent(s, n=4):
    return "".join((" " * n + l + "\n") if l.strip() else "\n" for l in s.splitlines())


NEGATIVES = [
    ("result_and_no_log", "#[handler(result, no_log)]\n        pub async fn h(&mut self, _m: M, _r: &ActorRef<Self>) -> Result<u32, String> { Ok(1) }", "mutually exclusive"),
    ("no_log_and_result", "#[handler(no_log, result)]\n        pub async fn h(&mut self, _m: M, _r: &ActorRef<Self>) -> Result<u32, String> { Ok(1) }", "mutually exclusive"),
    ("unknown_option", "#[handler(verbose)]\n        pub async fn h(&mut self, _m: M, _r: &ActorRef<Self>) -> u32 { 1 }", "unknown handler option"),
    ("result_without_return", "#[handler(result)]\n        pub async fn h(&mut self, _m: M, _r: &ActorRef<Self>) { }", "requires a return type"),
    ("not_async", "#[handler]\n        pub fn h(&mut self, _m: M, _r: &ActorRef<Self>) -> u32 { 1 }", "must be async"),
    ("wrong_arity", "#[handler]\n        pub async fn h(&mut self, _m: M) -> u32 { 1 }", "exactly 3 parameters"),
    ("not_mut_self", "#[handler]\n        pub async fn h(&self, _m: M, _r: &ActorRef<Self>) -> u32 { 1 }", "First parameter must be '&mut self'"),
    ("third_not_actorref", "#[handler]\n        pub async fn h(&mut self, _m: M, _r: &u32) -> u32 { 1 }", "Third parameter must be"),
    ("name_value_attr", "#[handler = \"x\"]\n        pub async fn h(&mut self, _m: M, _r: &ActorRef<Self>) -> u32 { 1 }", "expected `#[handler]`"),
]
NEG_DERIVE = ("derive_on_union", "#[derive(rsactor::Actor)]\npub union U { a: u32, b: f32 }\n", "can only be used on structs and enums")


def negative_source(body):
    return ("#![allow(dead_code)]\nuse rsactor::ActorRef;\n#[derive(rsactor::Actor)]\npub struct A;\npub struct M;\n"
            "#[rsactor::message_handlers]\nimpl A {\n        %s\n}\n") % body


def select(tier, seed):
    progs = all_programs()
    if tier == "thorough":
        return progs + multi_specs(tier)
    rnd = random.Random(seed)
    # quick: every return spelling x attribute at least once, other axes sampled
    chosen = []
    by = {}
    for p in progs:
        by.setdefault((p[0][0], p[1]), []).append(p)
    for k in sorted(by):
        chosen.append(rnd.choice(by[k]))
    rest = [p for p in progs if p not in chosen]
    chosen += rnd.sample(rest, min(36, len(rest)))
    return chosen + multi_specs(tier)
