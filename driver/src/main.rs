// rsav-extract: rustc_private driver that exports a fact base (pre-coroutine-lowering MIR,
// coroutine layouts, ADTs, impls, statics, select!-DSL sites) of the crates named in
// RSAV_CRATES as one JSON file per rustc process into $RSAV_OUT.
//
// Used as RUSTC_WORKSPACE_WRAPPER under `cargo +nightly check`. Crates not named in
// RSAV_CRATES are compiled unchanged.

#![feature(rustc_private)]
extern crate rustc_abi;
extern crate rustc_data_structures;
extern crate rustc_driver;
extern crate rustc_hir;
extern crate rustc_index;
extern crate rustc_interface;
extern crate rustc_lexer;
extern crate rustc_middle;
extern crate rustc_span;

mod json;
mod select;

use json::J;
use rustc_data_structures::steal::Steal;
use rustc_driver::Compilation;
use rustc_hir::def::DefKind;
use rustc_hir::def_id::{DefId, LocalDefId};
use rustc_index::IndexVec;
use rustc_interface::interface;
use rustc_middle::mir::{
    self, AggregateKind, BasicBlock, Body, CastKind, Operand, Place, ProjectionElem, Rvalue,
    StatementKind, TerminatorKind, UnwindAction,
};
use rustc_middle::ty::print::with_no_trimmed_paths;
use rustc_middle::ty::{self, GenericArgsRef, Ty, TyCtxt};
use rustc_span::Span;
use std::cell::RefCell;
use std::collections::HashMap;
use std::sync::OnceLock;

type PromotedFn = for<'tcx> fn(
    TyCtxt<'tcx>,
    LocalDefId,
) -> (&'tcx Steal<Body<'tcx>>, &'tcx Steal<IndexVec<mir::Promoted, Body<'tcx>>>);

static DEFAULT_PROMOTED: OnceLock<PromotedFn> = OnceLock::new();

thread_local! {
    // Bodies cloned while `mir_promoted` still owns them. The 'tcx lifetime is erased to
    // 'static for storage only; they are read back in `after_analysis` of the same session,
    // while the arenas they point into are alive.
    static SAVED: RefCell<Vec<(LocalDefId, Body<'static>)>> = RefCell::new(Vec::new());
    // promoted constants of each body (`&Some(X)`, `== Some(Variant)` operands, ...): exported as bodies named
    // `<def>::promoted[i]`, the spelling rustc prints for the constant operand that refers to them
    static SAVED_PROMOTED: RefCell<Vec<(LocalDefId, usize, Body<'static>)>> = RefCell::new(Vec::new());
}

fn my_promoted<'tcx>(
    tcx: TyCtxt<'tcx>,
    def: LocalDefId,
) -> (&'tcx Steal<Body<'tcx>>, &'tcx Steal<IndexVec<mir::Promoted, Body<'tcx>>>) {
    let r = (DEFAULT_PROMOTED.get().unwrap())(tcx, def);
    let cloned: Body<'tcx> = r.0.borrow().clone();
    let erased: Body<'static> = unsafe { std::mem::transmute(cloned) };
    SAVED.with(|s| s.borrow_mut().push((def, erased)));
    for (i, pb) in r.1.borrow().iter_enumerated() {
        let pc: Body<'tcx> = pb.clone();
        let pe: Body<'static> = unsafe { std::mem::transmute(pc) };
        SAVED_PROMOTED.with(|s| s.borrow_mut().push((def, i.as_usize(), pe)));
    }
    r
}

struct Cx<'tcx> {
    tcx: TyCtxt<'tcx>,
    cur_body: Option<&'tcx Body<'tcx>>,
    types: Vec<J>,
    type_ids: HashMap<Ty<'tcx>, usize>,
    spans: Vec<J>,
    span_ids: HashMap<Span, usize>,
}

fn dp(tcx: TyCtxt<'_>, d: DefId) -> String {
    with_no_trimmed_paths!(tcx.def_path_str(d))
}

impl<'tcx> Cx<'tcx> {
    fn ty(&mut self, t: Ty<'tcx>) -> J {
        J::n(self.ty_id(t))
    }

    fn ty_id(&mut self, t: Ty<'tcx>) -> usize {
        if let Some(&i) = self.type_ids.get(&t) {
            return i;
        }
        let i = self.types.len();
        self.types.push(J::Null);
        self.type_ids.insert(t, i);
        let tcx = self.tcx;
        let s = with_no_trimmed_paths!(format!("{t}"));
        let mut o: Vec<(&'static str, J)> = vec![("s", J::s(s))];
        let (k, def, args): (&str, Option<DefId>, Vec<Ty<'tcx>>) = match *t.kind() {
            ty::Bool => ("bool", None, vec![]),
            ty::Char => ("char", None, vec![]),
            ty::Int(_) => ("int", None, vec![]),
            ty::Uint(_) => ("uint", None, vec![]),
            ty::Float(_) => ("float", None, vec![]),
            ty::Str => ("str", None, vec![]),
            ty::Never => ("never", None, vec![]),
            ty::Adt(adt, a) => ("adt", Some(adt.did()), a.types().collect()),
            ty::Array(e, _) => ("array", None, vec![e]),
            ty::Slice(e) => ("slice", None, vec![e]),
            ty::RawPtr(e, _) => ("ptr", None, vec![e]),
            ty::Ref(_, e, m) => (if m.is_mut() { "refmut" } else { "ref" }, None, vec![e]),
            ty::FnDef(d, a) => ("fndef", Some(d.into()), a.types().collect()),
            ty::FnPtr(..) => ("fnptr", None, vec![]),
            ty::Dynamic(preds, _) => {
                let d = preds.principal_def_id();
                let mut a: Vec<Ty<'tcx>> = vec![];
                if let Some(p) = preds.principal() {
                    a.extend(p.skip_binder().args.types());
                }
                ("dyn", d, a)
            }
            ty::Closure(d, a) => {
                let ca = a.as_closure();
                ("closure", Some(d.into()), ca.upvar_tys().iter().collect())
            }
            ty::CoroutineClosure(d, _) => ("coroutine_closure", Some(d.into()), vec![]),
            ty::Coroutine(d, a) => {
                let ca = a.as_coroutine();
                ("coroutine", Some(d.into()), ca.upvar_tys().iter().collect())
            }
            ty::CoroutineWitness(d, _) => ("witness", Some(d.into()), vec![]),
            ty::Tuple(ts) => ("tuple", None, ts.iter().collect()),
            ty::Alias(a) => {
                let kind = match a.kind {
                    ty::AliasTyKind::Projection { .. } => "projection",
                    ty::AliasTyKind::Inherent { .. } => "inherent",
                    ty::AliasTyKind::Opaque { .. } => "opaque",
                    ty::AliasTyKind::Free { .. } => "free",
                };
                (kind, Some(a.kind.def_id()), a.args.types().collect())
            }
            ty::Param(_) => ("param", None, vec![]),
            _ => ("other", None, vec![]),
        };
        o.push(("k", J::s(k)));
        if let Some(d) = def {
            o.push(("def", J::s(dp(tcx, d))));
        }
        if !args.is_empty() {
            let ids: Vec<J> = args.into_iter().map(|a| self.ty(a)).collect();
            o.push(("args", J::Arr(ids)));
        }
        // hidden type of a crate-local opaque type (e.g. the coroutine behind an `async fn`)
        if let ty::Alias(a) = *t.kind() {
            if let ty::AliasTyKind::Opaque { def_id } = a.kind {
                if def_id.is_local() {
                    let hidden = tcx.type_of(def_id).instantiate(tcx, a.args).skip_norm_wip();
                    if hidden != t {
                        o.push(("hidden", self.ty(hidden)));
                    }
                }
            }
        }
        self.types[i] = J::Obj(o);
        i
    }

    fn span(&mut self, sp: Span) -> J {
        if let Some(&i) = self.span_ids.get(&sp) {
            return J::n(i);
        }
        let i = self.spans.len();
        self.spans.push(J::Null);
        self.span_ids.insert(sp, i);
        let sm = self.tcx.sess.source_map();
        let mut o: Vec<(&'static str, J)> = vec![];
        o.push(("lo", J::n(sp.lo().0)));
        o.push(("hi", J::n(sp.hi().0)));
        let loc = sm.lookup_char_pos(sp.lo());
        let hi = sm.lookup_char_pos(sp.hi());
        let fname = with_no_trimmed_paths!(format!("{}", loc.file.name.prefer_local_unconditionally()));
        o.push(("file", J::s(fname)));
        o.push(("line", J::n(loc.line)));
        o.push(("col", J::n(loc.col.0 + 1)));
        o.push(("eline", J::n(hi.line)));
        o.push(("ecol", J::n(hi.col.0 + 1)));
        if sp.from_expansion() {
            let mut macros: Vec<J> = vec![];
            let mut cur = sp;
            let mut guard = 0;
            while cur.from_expansion() && guard < 64 {
                let ed = cur.ctxt().outer_expn_data();
                let name = match ed.macro_def_id {
                    Some(d) => dp(self.tcx, d),
                    None => format!("{:?}", ed.kind),
                };
                macros.push(J::s(name));
                cur = ed.call_site;
                guard += 1;
            }
            o.push(("macros", J::Arr(macros)));
            // `cur` is now the root call site
            let cs = self.span(cur);
            o.push(("callsite", cs));
        }
        self.spans[i] = J::Obj(o);
        J::n(i)
    }

    fn place(&mut self, p: &Place<'tcx>) -> J {
        let mut proj: Vec<J> = vec![];
        for e in p.projection.iter() {
            proj.push(match e {
                ProjectionElem::Deref => J::s("*"),
                ProjectionElem::Field(f, _) => J::n(f.as_usize()),
                ProjectionElem::Downcast(name, v) => J::Obj(vec![
                    ("v", J::n(v.as_usize())),
                    ("name", J::opt(name.map(|n| J::s(n.to_string())))),
                ]),
                ProjectionElem::Index(l) => J::Obj(vec![("index", J::n(l.as_usize()))]),
                other => J::Obj(vec![("other", J::s(format!("{other:?}")))]),
            });
        }
        J::Obj(vec![("l", J::n(p.local.as_usize())), ("p", J::Arr(proj))])
    }

    fn operand(&mut self, op: &Operand<'tcx>) -> J {
        match op {
            Operand::Copy(p) => J::Obj(vec![("copy", self.place(p))]),
            Operand::Move(p) => J::Obj(vec![("move", self.place(p))]),
            Operand::Constant(c) => {
                let t = c.const_.ty();
                let mut o: Vec<(&'static str, J)> = vec![("ty", self.ty(t))];
                let s = with_no_trimmed_paths!(format!("{}", c.const_));
                o.push(("s", J::s(s)));
                if let ty::FnDef(d, args) = *t.kind() {
                    o.push(("fn", self.fn_ref(d.into(), args, None)));
                }
                // a constant that is a pointer to a static: resolve to the static's def path
                if let mir::Const::Val(mir::ConstValue::Scalar(rustc_middle::mir::interpret::Scalar::Ptr(ptr, _)), _) = c.const_ {
                    let aid = ptr.provenance.alloc_id();
                    if let Some(rustc_middle::mir::interpret::GlobalAlloc::Static(sd)) = self.tcx.try_get_global_alloc(aid) {
                        o.push(("static", J::s(dp(self.tcx, sd))));
                    }
                }
                // scalar value if it evaluates without generics
                if let Some(v) = c.const_.try_eval_scalar_int(self.tcx, ty::TypingEnv::fully_monomorphized()) {
                    o.push(("int", J::s(format!("{}", v.to_bits_unchecked()))));
                }
                J::Obj(vec![("const", J::Obj(o))])
            }
            other => J::Obj(vec![("otherop", J::s(format!("{other:?}")))]),
        }
    }

    fn fn_ref(&mut self, d: DefId, args: GenericArgsRef<'tcx>, env: Option<LocalDefId>) -> J {
        let tcx = self.tcx;
        let mut o: Vec<(&'static str, J)> = vec![("def", J::s(dp(tcx, d)))];
        let targs: Vec<J> = args.types().map(|t| self.ty(t)).collect();
        o.push(("targs", J::Arr(targs)));
        o.push(("krate", J::s(tcx.crate_name(d.krate).to_string())));
        o.push((
            "path",
            J::s(format!("{}{}", tcx.crate_name(d.krate), tcx.def_path(d).to_string_no_crate_verbose())),
        ));
        if let Some(name) = tcx.opt_item_name(d) {
            o.push(("name", J::s(name.to_string())));
        }
        if let Some(tr) = tcx.trait_of_assoc(d) {
            o.push(("trait", J::s(dp(tcx, tr))));
        } else if let Some(imp) = tcx.impl_of_assoc(d) {
            let self_ty = tcx.type_of(imp).instantiate(tcx, args).skip_norm_wip();
            o.push(("impl_self", self.ty(self_ty)));
            if let Some(tr) = tcx.impl_opt_trait_id(imp) {
                o.push(("impl_trait", J::s(dp(tcx, tr))));
            }
        }
        if let Some(env_def) = env {
            if matches!(tcx.def_kind(d), DefKind::Fn | DefKind::AssocFn) {
                let te = ty::TypingEnv::post_analysis(tcx, env_def);
                if let Ok(Some(inst)) = ty::Instance::try_resolve(tcx, te, d, args) {
                    let rd = inst.def_id();
                    if rd != d {
                        let mut r: Vec<(&'static str, J)> = vec![("def", J::s(dp(tcx, rd)))];
                        let rargs: Vec<J> = inst.args.types().map(|t| self.ty(t)).collect();
                        r.push(("targs", J::Arr(rargs)));
                        r.push(("krate", J::s(tcx.crate_name(rd.krate).to_string())));
                        if let Some(imp) = tcx.impl_of_assoc(rd) {
                            let self_ty = tcx.type_of(imp).instantiate(tcx, inst.args).skip_norm_wip();
                            r.push(("impl_self", self.ty(self_ty)));
                        }
                        r.push(("kind", J::s(inst_kind(&inst.def))));
                        o.push(("resolved", J::Obj(r)));
                    }
                }
            }
        }
        J::Obj(o)
    }

    fn rvalue(&mut self, rv: &Rvalue<'tcx>) -> J {
        match rv {
            Rvalue::Use(op, ..) => J::Obj(vec![("use", self.operand(op))]),
            Rvalue::Ref(_, bk, p) => J::Obj(vec![
                ("ref", self.place(p)),
                ("mut", J::Bool(matches!(bk, mir::BorrowKind::Mut { .. }))),
                ("fake", J::Bool(matches!(bk, mir::BorrowKind::Fake(_)))),
            ]),
            Rvalue::RawPtr(_, p) => J::Obj(vec![("rawptr", self.place(p))]),
            Rvalue::CopyForDeref(p) => J::Obj(vec![("use", J::Obj(vec![("copy", self.place(p))]))]),
            Rvalue::Cast(kind, op, t) => {
                let k = match kind {
                    CastKind::PointerCoercion(pc, _) => format!("ptr:{pc:?}"),
                    other => format!("{other:?}"),
                };
                J::Obj(vec![("cast", self.operand(op)), ("kind", J::s(k)), ("ty", self.ty(*t))])
            }
            Rvalue::BinaryOp(op, ab) => J::Obj(vec![
                ("binop", J::s(format!("{op:?}"))),
                ("a", self.operand(&ab.0)),
                ("b", self.operand(&ab.1)),
            ]),
            Rvalue::UnaryOp(op, a) => {
                J::Obj(vec![("unop", J::s(format!("{op:?}"))), ("a", self.operand(a))])
            }
            Rvalue::Discriminant(p) => {
                let pt = p.ty(self.cur_body.unwrap(), self.tcx).ty;
                J::Obj(vec![("discr", self.place(p)), ("ty", self.ty(pt))])
            }
            Rvalue::Aggregate(kind, ops) => {
                let tcx = self.tcx;
                let mut o: Vec<(&'static str, J)> = vec![];
                match &**kind {
                    AggregateKind::Tuple => o.push(("agg", J::s("tuple"))),
                    AggregateKind::Array(_) => o.push(("agg", J::s("array"))),
                    AggregateKind::Adt(d, v, args, _, _) => {
                        o.push(("agg", J::s("adt")));
                        o.push(("adt", J::s(dp(tcx, *d))));
                        let adt = tcx.adt_def(*d);
                        let var = adt.variant(*v);
                        o.push(("variant", J::s(var.name.to_string())));
                        o.push(("vidx", J::n(v.as_usize())));
                        let fnames: Vec<J> =
                            var.fields.iter().map(|f| J::s(f.name.to_string())).collect();
                        o.push(("fields", J::Arr(fnames)));
                        let targs: Vec<J> = args.types().map(|t| self.ty(t)).collect();
                        o.push(("targs", J::Arr(targs)));
                    }
                    AggregateKind::Closure(d, _) => {
                        o.push(("agg", J::s("closure")));
                        o.push(("def", J::s(dp(tcx, *d))));
                    }
                    AggregateKind::Coroutine(d, _) => {
                        o.push(("agg", J::s("coroutine")));
                        o.push(("def", J::s(dp(tcx, *d))));
                    }
                    AggregateKind::CoroutineClosure(d, _) => {
                        o.push(("agg", J::s("coroutine_closure")));
                        o.push(("def", J::s(dp(tcx, *d))));
                    }
                    AggregateKind::RawPtr(..) => o.push(("agg", J::s("rawptr"))),
                }
                let opsj: Vec<J> = ops.iter().map(|x| self.operand(x)).collect();
                o.push(("ops", J::Arr(opsj)));
                J::Obj(o)
            }
            Rvalue::ThreadLocalRef(d) => J::Obj(vec![("tlref", J::s(dp(self.tcx, *d)))]),
            other => J::Obj(vec![("otherrv", J::s(format!("{other:?}")))]),
        }
    }

    fn unwind(&self, u: &UnwindAction) -> J {
        match u {
            UnwindAction::Continue => J::s("continue"),
            UnwindAction::Unreachable => J::s("unreachable"),
            UnwindAction::Terminate(_) => J::s("terminate"),
            UnwindAction::Cleanup(bb) => J::n(bb.as_usize()),
        }
    }

    fn bb(b: BasicBlock) -> J {
        J::n(b.as_usize())
    }

    fn body(&mut self, def: LocalDefId, body: &Body<'tcx>, promoted: Option<usize>) -> J {
        let tcx = self.tcx;
        let did = def.to_def_id();
        let mut o: Vec<(&'static str, J)> = vec![];
        if let Some(i) = promoted {
            o.push(("def", J::s(format!("{}::promoted[{}]", dp(tcx, did), i))));
            o.push(("def_kind", J::s("Promoted")));
            o.push(("promoted_of", J::s(dp(tcx, did))));
        } else {
            o.push(("def", J::s(dp(tcx, did))));
            let kind = tcx.def_kind(did);
            o.push(("def_kind", J::s(format!("{kind:?}"))));
        }
        o.push(("span", self.span(body.span)));
        o.push(("arg_count", J::n(body.arg_count)));
        if let Some(ck) = body.coroutine_kind() {
            o.push(("coroutine_kind", J::s(format!("{ck:?}"))));
        }
        let parent = tcx.typeck_root_def_id_local(def);
        if parent != def && promoted.is_none() {
            o.push(("root", J::s(dp(tcx, parent.to_def_id()))));
            o.push(("parent", J::s(dp(tcx, tcx.local_parent(def).to_def_id()))));
        }
        // locals
        let mut names: HashMap<usize, String> = HashMap::new();
        let mut upvars: Vec<J> = vec![];
        for vdi in body.var_debug_info.iter() {
            if let mir::VarDebugInfoContents::Place(p) = &vdi.value {
                if p.projection.is_empty() {
                    names.insert(p.local.as_usize(), vdi.name.to_string());
                } else {
                    upvars.push(J::Obj(vec![
                        ("name", J::s(vdi.name.to_string())),
                        ("place", self.place(p)),
                    ]));
                }
            }
        }
        let mut locals: Vec<J> = vec![];
        for (l, decl) in body.local_decls.iter_enumerated() {
            let mut lo: Vec<(&'static str, J)> = vec![("ty", self.ty(decl.ty))];
            if let Some(n) = names.get(&l.as_usize()) {
                lo.push(("name", J::s(n.clone())));
            }
            if decl.is_user_variable() {
                lo.push(("user", J::Bool(true)));
            }
            if decl.mutability.is_mut() {
                lo.push(("mut", J::Bool(true)));
            }
            lo.push(("span", self.span(decl.source_info.span)));
            locals.push(J::Obj(lo));
        }
        o.push(("locals", J::Arr(locals)));
        o.push(("upvars", J::Arr(upvars)));
        // blocks
        let mut blocks: Vec<J> = vec![];
        for (_bb, data) in body.basic_blocks.iter_enumerated() {
            let mut stmts: Vec<J> = vec![];
            for st in data.statements.iter() {
                let sj = match &st.kind {
                    StatementKind::Assign(b) => {
                        let (p, rv) = &**b;
                        Some(J::Obj(vec![
                            ("k", J::s("assign")),
                            ("place", self.place(p)),
                            ("rv", self.rvalue(rv)),
                            ("span", self.span(st.source_info.span)),
                        ]))
                    }
                    StatementKind::SetDiscriminant { place, variant_index } => Some(J::Obj(vec![
                        ("k", J::s("setdiscr")),
                        ("place", self.place(place)),
                        ("v", J::n(variant_index.as_usize())),
                    ])),
                    StatementKind::StorageDead(l) => Some(J::Obj(vec![
                        ("k", J::s("dead")),
                        ("l", J::n(l.as_usize())),
                    ])),
                    StatementKind::StorageLive(l) => Some(J::Obj(vec![
                        ("k", J::s("live")),
                        ("l", J::n(l.as_usize())),
                    ])),
                    _ => None,
                };
                if let Some(sj) = sj {
                    stmts.push(sj);
                }
            }
            let term = data.terminator();
            let mut t: Vec<(&'static str, J)> = vec![("span", self.span(term.source_info.span))];
            match &term.kind {
                TerminatorKind::Goto { target } => {
                    t.push(("k", J::s("goto")));
                    t.push(("target", Self::bb(*target)));
                }
                TerminatorKind::SwitchInt { discr, targets } => {
                    t.push(("k", J::s("switch")));
                    t.push(("discr", self.operand(discr)));
                    let dt = discr.ty(self.cur_body.unwrap(), self.tcx);
                    t.push(("discr_ty", self.ty(dt)));
                    let arms: Vec<J> = targets
                        .iter()
                        .map(|(v, b)| J::Arr(vec![J::s(v.to_string()), Self::bb(b)]))
                        .collect();
                    t.push(("arms", J::Arr(arms)));
                    t.push(("otherwise", Self::bb(targets.otherwise())));
                }
                TerminatorKind::UnwindResume => t.push(("k", J::s("resume"))),
                TerminatorKind::UnwindTerminate(_) => t.push(("k", J::s("terminate"))),
                TerminatorKind::Return => t.push(("k", J::s("return"))),
                TerminatorKind::Unreachable => t.push(("k", J::s("unreachable"))),
                TerminatorKind::Drop { place, target, unwind, .. } => {
                    t.push(("k", J::s("drop")));
                    t.push(("place", self.place(place)));
                    t.push(("target", Self::bb(*target)));
                    t.push(("unwind", self.unwind(unwind)));
                }
                TerminatorKind::Call { func, args, destination, target, unwind, fn_span, .. } => {
                    t.push(("k", J::s("call")));
                    match func {
                        Operand::Constant(c) => {
                            if let ty::FnDef(d, ga) = *c.const_.ty().kind() {
                                t.push(("fn", self.fn_ref(d.into(), ga, Some(def))));
                            } else {
                                t.push(("fnop", self.operand(func)));
                            }
                        }
                        _ => t.push(("fnop", self.operand(func))),
                    }
                    let a: Vec<J> = args.iter().map(|x| self.operand(&x.node)).collect();
                    t.push(("args", J::Arr(a)));
                    t.push(("dest", self.place(destination)));
                    t.push(("target", J::opt(target.map(Self::bb))));
                    t.push(("unwind", self.unwind(unwind)));
                    t.push(("fn_span", self.span(*fn_span)));
                }
                TerminatorKind::Assert { cond, expected, target, unwind, msg } => {
                    t.push(("k", J::s("assert")));
                    t.push(("cond", self.operand(cond)));
                    t.push(("expected", J::Bool(*expected)));
                    t.push(("target", Self::bb(*target)));
                    t.push(("unwind", self.unwind(unwind)));
                    t.push(("msg", J::s(format!("{msg:?}"))));
                }
                TerminatorKind::Yield { value, resume, resume_arg, drop } => {
                    t.push(("k", J::s("yield")));
                    t.push(("value", self.operand(value)));
                    t.push(("resume", Self::bb(*resume)));
                    t.push(("resume_arg", self.place(resume_arg)));
                    t.push(("drop", J::opt(drop.map(Self::bb))));
                }
                TerminatorKind::CoroutineDrop => t.push(("k", J::s("coroutine_drop"))),
                TerminatorKind::FalseEdge { real_target, imaginary_target } => {
                    t.push(("k", J::s("false_edge")));
                    t.push(("target", Self::bb(*real_target)));
                    t.push(("imaginary", Self::bb(*imaginary_target)));
                }
                TerminatorKind::FalseUnwind { real_target, unwind } => {
                    t.push(("k", J::s("false_unwind")));
                    t.push(("target", Self::bb(*real_target)));
                    t.push(("unwind", self.unwind(unwind)));
                }
                other => {
                    t.push(("k", J::s("other")));
                    t.push(("dbg", J::s(format!("{other:?}"))));
                }
            }
            blocks.push(J::Obj(vec![
                ("cleanup", J::Bool(data.is_cleanup)),
                ("stmts", J::Arr(stmts)),
                ("term", J::Obj(t)),
            ]));
        }
        o.push(("blocks", J::Arr(blocks)));

        // coroutine layout (compiler's own liveness across suspension points)
        if tcx.is_coroutine(did) && promoted.is_none() {
            if let Some(layout) = tcx.mir_coroutine_witnesses(did) {
                let mut saved: Vec<J> = vec![];
                for (i, f) in layout.field_tys.iter_enumerated() {
                    let walked = self.walk_ty(f.ty);
                    saved.push(J::Obj(vec![
                        ("ty", self.ty(f.ty)),
                        ("name", J::opt(layout.field_names[i].map(|n| J::s(n.to_string())))),
                        ("span", self.span(f.source_info.span)),
                        ("contains", walked),
                    ]));
                }
                let mut variants: Vec<J> = vec![];
                for (v, fs) in layout.variant_fields.iter_enumerated() {
                    let ids: Vec<J> = fs.iter().map(|f| J::n(f.as_usize())).collect();
                    variants.push(J::Obj(vec![
                        ("fields", J::Arr(ids)),
                        ("span", self.span(layout.variant_source_info[v].span)),
                    ]));
                }
                o.push((
                    "layout",
                    J::Obj(vec![("saved", J::Arr(saved)), ("variants", J::Arr(variants))]),
                ));
            }
        }
        // select! DSL sites
        let sel = if promoted.is_none() { select::find_sites(self, body) } else { vec![] };
        if !sel.is_empty() {
            o.push(("selects", J::Arr(sel)));
        }
        J::Obj(o)
    }

    // every type reachable through generic arguments / upvars (the compiler's `walk`)
    fn walk_ty(&mut self, t: Ty<'tcx>) -> J {
        let mut out: Vec<J> = vec![];
        let mut seen: Vec<usize> = vec![];
        for ga in t.walk() {
            if let Some(inner) = ga.as_type() {
                let id = self.ty_id(inner);
                if !seen.contains(&id) {
                    seen.push(id);
                    out.push(J::n(id));
                }
            }
        }
        J::Arr(out)
    }
}

fn inst_kind(d: &ty::InstanceKind<'_>) -> &'static str {
    match d {
        ty::InstanceKind::Item(_) => "item",
        ty::InstanceKind::Virtual(..) => "virtual",
        ty::InstanceKind::ClosureOnceShim { .. } => "closure_once_shim",
        ty::InstanceKind::DropGlue(..) => "drop_glue",
        ty::InstanceKind::CloneShim(..) => "clone_shim",
        ty::InstanceKind::FnPtrShim(..) => "fnptr_shim",
        _ => "other",
    }
}

fn export_items<'tcx>(cx: &mut Cx<'tcx>) -> Vec<(&'static str, J)> {
    let tcx = cx.tcx;
    let mut adts: Vec<J> = vec![];
    let mut impls: Vec<J> = vec![];
    let mut statics: Vec<J> = vec![];
    let mut consts: Vec<J> = vec![];
    let mut fns: Vec<J> = vec![];
    let mut traits: Vec<J> = vec![];
    for ld in tcx.iter_local_def_id() {
        let d = ld.to_def_id();
        match tcx.def_kind(d) {
            DefKind::Struct | DefKind::Enum | DefKind::Union => {
                let adt = tcx.adt_def(d);
                let mut vars: Vec<J> = vec![];
                for v in adt.variants().iter() {
                    let mut fields: Vec<J> = vec![];
                    for f in v.fields.iter() {
                        let fty = tcx.type_of(f.did).instantiate_identity().skip_norm_wip();
                        let contains = cx.walk_ty(fty);
                        fields.push(J::Obj(vec![
                            ("name", J::s(f.name.to_string())),
                            ("ty", cx.ty(fty)),
                            ("contains", contains),
                            ("vis", J::s(format!("{:?}", f.vis))),
                        ]));
                    }
                    vars.push(J::Obj(vec![
                        ("name", J::s(v.name.to_string())),
                        ("fields", J::Arr(fields)),
                    ]));
                }
                adts.push(J::Obj(vec![
                    ("def", J::s(dp(tcx, d))),
                    ("kind", J::s(format!("{:?}", tcx.def_kind(d)))),
                    ("variants", J::Arr(vars)),
                    ("span", cx.span(tcx.def_span(d))),
                ]));
            }
            DefKind::Impl { of_trait } => {
                let self_ty = tcx.type_of(d).instantiate_identity().skip_norm_wip();
                let mut o: Vec<(&'static str, J)> =
                    vec![("def", J::s(dp(tcx, d))), ("self_ty", cx.ty(self_ty))];
                if of_trait {
                    let tr = tcx.impl_trait_ref(d).instantiate_identity().skip_norm_wip();
                    o.push(("trait", J::s(dp(tcx, tr.def_id))));
                    let targs: Vec<J> = tr.args.types().map(|t| cx.ty(t)).collect();
                    o.push(("trait_targs", J::Arr(targs)));
                }
                let mut items: Vec<J> = vec![];
                for it in tcx.associated_items(d).in_definition_order() {
                    let mut io: Vec<(&'static str, J)> = vec![
                        ("name", J::s(it.opt_name().map(|n| n.to_string()).unwrap_or_else(|| "<rpitit>".to_string()))),
                        ("def", J::s(dp(tcx, it.def_id))),
                        ("kind", J::s(format!("{:?}", it.tag()))),
                        ("span", cx.span(tcx.def_span(it.def_id))),
                    ];
                    if it.is_type() && it.opt_name().is_some() {
                        let t = tcx.type_of(it.def_id).instantiate_identity().skip_norm_wip();
                        io.push(("ty", cx.ty(t)));
                    }
                    items.push(J::Obj(io));
                }
                o.push(("items", J::Arr(items)));
                o.push(("span", cx.span(tcx.def_span(d))));
                impls.push(J::Obj(o));
            }
            DefKind::Trait => {
                let mut items: Vec<J> = vec![];
                for it in tcx.associated_items(d).in_definition_order() {
                    items.push(J::Obj(vec![
                        ("name", J::s(it.opt_name().map(|n| n.to_string()).unwrap_or_else(|| "<rpitit>".to_string()))),
                        ("def", J::s(dp(tcx, it.def_id))),
                        ("has_default", J::Bool(it.defaultness(tcx).has_value())),
                    ]));
                }
                traits.push(J::Obj(vec![("def", J::s(dp(tcx, d))), ("items", J::Arr(items))]));
            }
            DefKind::Static { mutability, nested, .. } => {
                let t = tcx.type_of(d).instantiate_identity().skip_norm_wip();
                let contains = cx.walk_ty(t);
                statics.push(J::Obj(vec![
                    ("def", J::s(dp(tcx, d))),
                    ("ty", cx.ty(t)),
                    ("contains", contains),
                    ("mut", J::Bool(mutability.is_mut())),
                    ("nested", J::Bool(nested)),
                    ("thread_local", J::Bool(tcx.is_thread_local_static(d))),
                    ("span", cx.span(tcx.def_span(d))),
                ]));
            }
            DefKind::Const { .. } | DefKind::AssocConst { .. } => {
                let t = tcx.type_of(d).instantiate_identity().skip_norm_wip();
                let mut o: Vec<(&'static str, J)> =
                    vec![("def", J::s(dp(tcx, d))), ("ty", cx.ty(t))];
                if tcx.generics_of(d).is_empty() && tcx.hir_maybe_body_owned_by(ld).is_some() {
                    if let Ok(v) = tcx.const_eval_poly(d) {
                        if let Some(s) = v.try_to_scalar_int() {
                            o.push(("int", J::s(format!("{}", s.to_bits_unchecked()))));
                        }
                    }
                }
                consts.push(J::Obj(o));
            }
            DefKind::Fn | DefKind::AssocFn => {
                let sig = tcx.fn_sig(d).instantiate_identity().skip_norm_wip().skip_binder();
                let inputs: Vec<J> = sig.inputs().iter().map(|t| cx.ty(*t)).collect();
                let mut o: Vec<(&'static str, J)> = vec![
                    ("def", J::s(dp(tcx, d))),
                    ("name", J::s(tcx.item_name(d).to_string())),
                    ("inputs", J::Arr(inputs)),
                    ("output", cx.ty(sig.output())),
                    ("async", J::Bool(tcx.asyncness(d).is_async())),
                    ("vis", J::s(format!("{:?}", tcx.visibility(d)))),
                    ("deprecated", J::Bool(tcx.lookup_deprecation(d).is_some())),
                    ("span", cx.span(tcx.def_span(d))),
                    ("has_body", J::Bool(tcx.hir_maybe_body_owned_by(ld).is_some())),
                ];
                if let Some(tr) = tcx.trait_of_assoc(d) {
                    o.push(("trait", J::s(dp(tcx, tr))));
                } else if let Some(imp) = tcx.impl_of_assoc(d) {
                    o.push(("impl", J::s(dp(tcx, imp))));
                    let st = tcx.type_of(imp).instantiate_identity().skip_norm_wip();
                    o.push(("impl_self", cx.ty(st)));
                    if let Some(tr) = tcx.impl_opt_trait_id(imp) {
                        o.push(("impl_trait", J::s(dp(tcx, tr))));
                    }
                }
                let gens = tcx.generics_of(d);
                let mut gnames: Vec<J> = vec![];
                let mut g = Some(gens);
                let mut chain: Vec<&ty::Generics> = vec![];
                while let Some(gg) = g {
                    chain.push(gg);
                    g = gg.parent.map(|p| tcx.generics_of(p));
                }
                for gg in chain.into_iter().rev() {
                    for p in gg.own_params.iter() {
                        if matches!(p.kind, ty::GenericParamDefKind::Type { .. }) {
                            gnames.push(J::s(p.name.to_string()));
                        }
                    }
                }
                o.push(("generics", J::Arr(gnames)));
                fns.push(J::Obj(o));
            }
            _ => {}
        }
    }
    vec![
        ("adts", J::Arr(adts)),
        ("impls", J::Arr(impls)),
        ("traits", J::Arr(traits)),
        ("statics", J::Arr(statics)),
        ("consts", J::Arr(consts)),
        ("fns", J::Arr(fns)),
    ]
}

struct Cb {
    out_dir: String,
}

impl rustc_driver::Callbacks for Cb {
    fn config(&mut self, config: &mut interface::Config) {
        config.override_queries = Some(|_sess, providers| {
            let _ = DEFAULT_PROMOTED.set(providers.queries.mir_promoted);
            providers.queries.mir_promoted = my_promoted;
        });
    }

    fn after_analysis<'tcx>(&mut self, _c: &interface::Compiler, tcx: TyCtxt<'tcx>) -> Compilation {
        let crate_name = tcx.crate_name(rustc_hir::def_id::LOCAL_CRATE).to_string();
        let mut cx = Cx {
            tcx,
            cur_body: None,
            types: vec![],
            type_ids: HashMap::new(),
            spans: vec![],
            span_ids: HashMap::new(),
        };
        // make sure every body has been through mir_promoted
        for def in tcx.hir_body_owners() {
            let _ = tcx.mir_promoted(def);
        }
        let saved: Vec<(LocalDefId, Body<'static>)> = SAVED.with(|s| std::mem::take(&mut *s.borrow_mut()));
        let mut bodies: Vec<J> = vec![];
        for (def, body) in saved.iter() {
            let body: &'tcx Body<'tcx> = unsafe { std::mem::transmute(body) };
            cx.cur_body = Some(body);
            bodies.push(cx.body(*def, body, None));
        }
        let saved_p: Vec<(LocalDefId, usize, Body<'static>)> = SAVED_PROMOTED.with(|s| std::mem::take(&mut *s.borrow_mut()));
        for (def, i, body) in saved_p.iter() {
            let body: &'tcx Body<'tcx> = unsafe { std::mem::transmute(body) };
            cx.cur_body = Some(body);
            bodies.push(cx.body(*def, body, Some(*i)));
        }
        let mut top: Vec<(&'static str, J)> = vec![];
        top.push(("crate", J::s(crate_name.clone())));
        top.push(("is_test", J::Bool(tcx.sess.is_test_crate())));
        let cfgs: Vec<J> = tcx
            .sess.config
            .iter()
            .filter(|(k, _)| k.as_str() == "feature")
            .filter_map(|(_, v)| v.map(|v| J::s(v.to_string())))
            .collect();
        top.push(("features", J::Arr(cfgs)));
        top.push(("rustc", J::s(rustc_interface::util::rustc_version_str().unwrap_or("?"))));
        top.push(("bodies", J::Arr(bodies)));
        top.extend(export_items(&mut cx));
        top.push(("types", J::Arr(std::mem::take(&mut cx.types))));
        top.push(("spans", J::Arr(std::mem::take(&mut cx.spans))));
        let mut out = String::new();
        J::Obj(top).write(&mut out);
        let suffix = if tcx.sess.is_test_crate() { "-test" } else { "" };
        let path = format!("{}/{}{}.json", self.out_dir, crate_name, suffix);
        std::fs::write(&path, out).expect("rsav-extract: cannot write fact file");
        Compilation::Continue
    }
}

struct Plain;
impl rustc_driver::Callbacks for Plain {}

fn main() {
    let mut args: Vec<String> = std::env::args().collect();
    // RUSTC_WORKSPACE_WRAPPER: argv[1] is the real rustc path
    if args.len() > 1 && (args[1].ends_with("rustc") || args[1].contains("/rustc")) {
        args.remove(1);
    }
    let out_dir = std::env::var("RSAV_OUT").unwrap_or_default();
    let wanted = std::env::var("RSAV_CRATES").unwrap_or_else(|_| "rsactor".to_string());
    let mut crate_name = String::new();
    for (i, a) in args.iter().enumerate() {
        if a == "--crate-name" && i + 1 < args.len() {
            crate_name = args[i + 1].clone();
        }
    }
    let selected = !out_dir.is_empty()
        && (wanted == "*" || wanted.split(',').any(|w| w == crate_name))
        && !args.iter().any(|a| a == "--print" || a.starts_with("--print="));
    if selected {
        rustc_driver::run_compiler(&args, &mut Cb { out_dir });
    } else {
        rustc_driver::run_compiler(&args, &mut Plain);
    }
}
