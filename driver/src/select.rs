// `tokio::select!` as a language construct: find expansion sites in a body and lex the
// user's call-site tokens into the DSL structure {biased, branches[pattern, future,
// precondition, handler]} with absolute byte positions, so that the rule engine can map the
// *resolved* calls of the body (which keep root-context spans) into branches.

use crate::json::J;
use crate::{dp, Cx};
use rustc_lexer::{tokenize, FrontmatterAllowed, TokenKind};
use rustc_middle::mir::Body;
use rustc_span::{BytePos, Span};

fn outermost_select_callsite<'tcx>(cx: &Cx<'tcx>, sp: Span) -> Option<Span> {
    let mut cur = sp;
    let mut found = None;
    let mut guard = 0;
    while cur.from_expansion() && guard < 64 {
        let ed = cur.ctxt().outer_expn_data();
        if let Some(d) = ed.macro_def_id {
            if dp(cx.tcx, d) == "tokio::select" {
                found = Some(ed.call_site);
            }
        }
        cur = ed.call_site;
        guard += 1;
    }
    found
}

pub fn find_sites<'tcx>(cx: &mut Cx<'tcx>, body: &Body<'tcx>) -> Vec<J> {
    let mut sites: Vec<Span> = vec![];
    let mut add = |sp: Span, cx: &Cx<'tcx>| {
        if let Some(cs) = outermost_select_callsite(cx, sp) {
            if !sites.iter().any(|s| s.lo() == cs.lo() && s.hi() == cs.hi()) {
                sites.push(cs);
            }
        }
    };
    for data in body.basic_blocks.iter() {
        for st in data.statements.iter() {
            add(st.source_info.span, cx);
        }
        add(data.terminator().source_info.span, cx);
    }
    let mut out = vec![];
    for cs in sites {
        out.push(lex_site(cx, cs));
    }
    out
}

#[derive(Clone, Copy)]
struct Tok {
    kind: TokenKind,
    lo: usize,
    hi: usize,
}

fn lex_site<'tcx>(cx: &mut Cx<'tcx>, cs: Span) -> J {
    let sm = cx.tcx.sess.source_map();
    let mut o: Vec<(&'static str, J)> = vec![("callsite", cx.span(cs))];
    let snippet = match sm.span_to_snippet(cs) {
        Ok(s) => s,
        Err(_) => {
            o.push(("error", J::s("no snippet")));
            return J::Obj(o);
        }
    };
    let base = cs.lo().0 as usize;
    // significant tokens with offsets
    let mut toks: Vec<Tok> = vec![];
    let mut off = 0usize;
    for t in tokenize(&snippet, FrontmatterAllowed::No) {
        let len = t.len as usize;
        match t.kind {
            TokenKind::Whitespace | TokenKind::LineComment { .. } | TokenKind::BlockComment { .. } => {}
            k => toks.push(Tok { kind: k, lo: off, hi: off + len }),
        }
        off += len;
    }
    // find the macro's delimiter: first `!` then the next open delimiter
    let mut i = 0;
    while i < toks.len() && toks[i].kind != TokenKind::Bang {
        i += 1;
    }
    i += 1;
    if i >= toks.len() {
        o.push(("error", J::s("no macro bang")));
        return J::Obj(o);
    }
    let open = i;
    let close = toks.len() - 1;
    let inner = &toks[open + 1..close];
    let text = |a: usize, b: usize| -> String { snippet[a..b].to_string() };
    let abs = |x: usize| -> J { J::n(base + x) };
    let mut pos = 0usize;
    let mut biased = false;
    // `biased ;`
    if inner.len() >= 2
        && inner[0].kind == TokenKind::Ident
        && &snippet[inner[0].lo..inner[0].hi] == "biased"
        && inner[1].kind == TokenKind::Semi
    {
        biased = true;
        pos = 2;
    }
    o.push(("biased", J::Bool(biased)));
    let mut branches: Vec<J> = vec![];
    let mut has_else = false;
    let is_open = |k: TokenKind| matches!(k, TokenKind::OpenParen | TokenKind::OpenBrace | TokenKind::OpenBracket);
    let is_close = |k: TokenKind| matches!(k, TokenKind::CloseParen | TokenKind::CloseBrace | TokenKind::CloseBracket);
    let n = inner.len();
    while pos < n {
        // `else => handler`
        if inner[pos].kind == TokenKind::Ident && &snippet[inner[pos].lo..inner[pos].hi] == "else" {
            has_else = true;
            break;
        }
        let mut b: Vec<(&'static str, J)> = vec![];
        // pattern: until depth-0 `=` that is not part of `==`, `=>`, `..=`, `<=`, `>=`, `!=`
        let pat_start = pos;
        let mut depth = 0i32;
        let mut j = pos;
        let mut eq_at = None;
        while j < n {
            let k = inner[j].kind;
            if is_open(k) {
                depth += 1;
            } else if is_close(k) {
                depth -= 1;
            } else if k == TokenKind::Eq && depth == 0 {
                let next_adj = j + 1 < n && inner[j + 1].lo == inner[j].hi;
                let prev_adj = j > 0 && inner[j - 1].hi == inner[j].lo;
                let next_k = if j + 1 < n { Some(inner[j + 1].kind) } else { None };
                let prev_k = if j > 0 { Some(inner[j - 1].kind) } else { None };
                let compound = (next_adj && matches!(next_k, Some(TokenKind::Eq) | Some(TokenKind::Gt)))
                    || (prev_adj
                        && matches!(
                            prev_k,
                            Some(TokenKind::Dot) | Some(TokenKind::Lt) | Some(TokenKind::Gt) | Some(TokenKind::Bang) | Some(TokenKind::Eq)
                        ));
                if !compound {
                    eq_at = Some(j);
                    break;
                }
            }
            j += 1;
        }
        let Some(eq) = eq_at else {
            o.push(("error", J::s("branch without `=`")));
            break;
        };
        if eq == pat_start {
            o.push(("error", J::s("empty pattern")));
            break;
        }
        b.push(("pattern", J::s(text(inner[pat_start].lo, inner[eq - 1].hi))));
        // future: until depth-0 `=>` or depth-0 `, if`
        let fut_start = eq + 1;
        let mut j = fut_start;
        let mut depth = 0i32;
        let mut fut_end = None; // exclusive token index
        let mut cond: Option<(usize, usize)> = None;
        let mut arrow = None;
        while j < n {
            let k = inner[j].kind;
            if is_open(k) {
                depth += 1;
            } else if is_close(k) {
                depth -= 1;
            } else if depth == 0 && k == TokenKind::Eq && j + 1 < n && inner[j + 1].kind == TokenKind::Gt && inner[j + 1].lo == inner[j].hi {
                fut_end = Some(j);
                arrow = Some(j);
                break;
            } else if depth == 0
                && k == TokenKind::Comma
                && j + 1 < n
                && inner[j + 1].kind == TokenKind::Ident
                && &snippet[inner[j + 1].lo..inner[j + 1].hi] == "if"
            {
                fut_end = Some(j);
                // condition until `=>`
                let cstart = j + 2;
                let mut m = cstart;
                let mut d2 = 0i32;
                while m < n {
                    let k2 = inner[m].kind;
                    if is_open(k2) {
                        d2 += 1;
                    } else if is_close(k2) {
                        d2 -= 1;
                    } else if d2 == 0 && k2 == TokenKind::Eq && m + 1 < n && inner[m + 1].kind == TokenKind::Gt && inner[m + 1].lo == inner[m].hi {
                        break;
                    }
                    m += 1;
                }
                cond = Some((cstart, m));
                arrow = Some(m);
                break;
            }
            j += 1;
        }
        let (Some(fe), Some(ar)) = (fut_end, arrow) else {
            o.push(("error", J::s("branch without `=>`")));
            break;
        };
        if fe <= fut_start || ar + 2 > n {
            o.push(("error", J::s("malformed branch")));
            break;
        }
        b.push(("future", J::s(text(inner[fut_start].lo, inner[fe - 1].hi))));
        b.push(("future_lo", abs(inner[fut_start].lo)));
        b.push(("future_hi", abs(inner[fe - 1].hi)));
        if let Some((c0, c1)) = cond {
            if c1 > c0 {
                b.push(("cond", J::s(text(inner[c0].lo, inner[c1 - 1].hi))));
                b.push(("cond_lo", abs(inner[c0].lo)));
                b.push(("cond_hi", abs(inner[c1 - 1].hi)));
                let ctoks: Vec<J> = (c0..c1).map(|x| J::s(text(inner[x].lo, inner[x].hi))).collect();
                b.push(("cond_tokens", J::Arr(ctoks)));
            }
        }
        // handler
        let hstart = ar + 2;
        if hstart >= n {
            o.push(("error", J::s("missing handler")));
            break;
        }
        let mut j = hstart;
        let hend; // exclusive
        if inner[hstart].kind == TokenKind::OpenBrace {
            let mut depth = 0i32;
            loop {
                let k = inner[j].kind;
                if is_open(k) {
                    depth += 1;
                } else if is_close(k) {
                    depth -= 1;
                    if depth == 0 {
                        break;
                    }
                }
                j += 1;
                if j >= n {
                    break;
                }
            }
            hend = (j + 1).min(n);
            pos = hend;
            if pos < n && inner[pos].kind == TokenKind::Comma {
                pos += 1;
            }
        } else {
            let mut depth = 0i32;
            while j < n {
                let k = inner[j].kind;
                if is_open(k) {
                    depth += 1;
                } else if is_close(k) {
                    depth -= 1;
                } else if depth == 0 && k == TokenKind::Comma {
                    break;
                }
                j += 1;
            }
            hend = j;
            pos = (j + 1).min(n);
        }
        b.push(("handler_lo", abs(inner[hstart].lo)));
        b.push(("handler_hi", abs(inner[hend - 1].hi)));
        branches.push(J::Obj(b));
    }
    o.push(("has_else", J::Bool(has_else)));
    o.push(("branches", J::Arr(branches)));
    let _ = BytePos(0);
    J::Obj(o)
}
