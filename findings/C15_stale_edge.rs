use rsactor::{spawn, Actor, ActorRef, Message};

struct A;
struct B;
impl Actor for A { type Args=(); type Error=anyhow::Error; async fn on_start(_:(), _:&ActorRef<Self>)->Result<Self,Self::Error>{Ok(A)} }
impl Actor for B { type Args=(); type Error=anyhow::Error; async fn on_start(_:(), _:&ActorRef<Self>)->Result<Self,Self::Error>{Ok(B)} }

struct Ping;            // -> B : replies immediately
struct AskBThenDone(ActorRef<B>); // -> A : A asks B(Ping)
struct NowAskA(ActorRef<A>);      // -> B : B asks A(Hello)
struct Hello;
struct Wait(tokio::sync::oneshot::Receiver<()>);
impl Message<Wait> for B { type Reply=(); async fn handle(&mut self,m:Wait,_:&ActorRef<Self>){ let _ = m.0.await; } }

impl Message<Ping> for B { type Reply=u32; async fn handle(&mut self,_:Ping,_:&ActorRef<Self>)->u32{1} }
impl Message<NowAskA> for B { type Reply=u32; async fn handle(&mut self,m:NowAskA,_:&ActorRef<Self>)->u32{ m.0.ask(Hello).await.unwrap() } }
impl Message<AskBThenDone> for A { type Reply=u32; async fn handle(&mut self,m:AskBThenDone,_:&ActorRef<Self>)->u32{ m.0.ask(Ping).await.unwrap() } }
impl Message<Hello> for A { type Reply=u32; async fn handle(&mut self,_:Hello,_:&ActorRef<Self>)->u32{7} }

#[tokio::test(flavor = "current_thread")]
async fn stale_edge_false_positive() {
    let (a, ja) = spawn::<A>(());
    let (b, jb) = spawn::<B>(());
    // let both start
    tokio::task::yield_now().await;
    // Queue into B's mailbox, in order: (nothing yet). A will ask B(Ping); we pre-queue B's follow-up
    // so that B handles NowAskA right after replying to A's Ping without yielding to A.
    let (tx, rx) = tokio::sync::oneshot::channel();
    b.tell(Wait(rx)).await.unwrap();
    tokio::task::yield_now().await; // B blocked in Wait
    a.tell(AskBThenDone(b.clone())).await.unwrap();   // A: will ask B Ping
    tokio::task::yield_now().await;                    // A runs: sends Ping to B, awaits reply (edge A->B)
    b.tell(NowAskA(a.clone())).await.unwrap();        // B mailbox: [Ping, NowAskA]
    // Now B runs: handles Ping (reply sent, A woken but not yet run), then NowAskA: asks A. No real cycle:
    // A's ask was answered. A sound detector must not panic.
    tx.send(()).unwrap();
    drop(a); drop(b);
    let ra = ja.await; let rb = jb.await;
    println!("A: {:?}", ra.as_ref().map(|_| ()).map_err(|e| e.to_string()));
    println!("B: {:?}", rb.as_ref().map(|_| ()).map_err(|e| e.to_string()));
    assert!(rb.is_ok(), "B panicked: false-positive deadlock detection");
    assert!(ra.is_ok());
}
