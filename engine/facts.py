"""Fact base loader: wraps one JSON fact file written by the rsav-extract driver."""
import json
import os


class Ty:
    __slots__ = ("f", "id", "s", "k", "defn", "arg_ids", "hidden_id")

    def __init__(self, f, i, d):
        self.f = f
        self.id = i
        self.s = d["s"]
        self.k = d["k"]
        self.defn = d.get("def")
        self.arg_ids = d.get("args", [])
        self.hidden_id = d.get("hidden")

    @property
    def hidden(self):
        return self.f.ty(self.hidden_id) if self.hidden_id is not None else None

    @property
    def args(self):
        return [self.f.ty(i) for i in self.arg_ids]

    def walk(self, _seen=None):
        """All types reachable through generic args / upvars / pointees (structural)."""
        if _seen is None:
            _seen = set()
        if self.id in _seen:
            return
        _seen.add(self.id)
        yield self
        for a in self.args:
            yield from a.walk(_seen)

    def is_adt(self, defn):
        return self.k == "adt" and self.defn == defn

    def peel_refs(self):
        t = self
        while t.k in ("ref", "refmut", "ptr") and t.arg_ids:
            t = t.args[0]
        return t

    def __repr__(self):
        return self.s


class Span:
    __slots__ = ("f", "id", "lo", "hi", "file", "line", "col", "eline", "ecol", "macros", "callsite_id")

    def __init__(self, f, i, d):
        self.f = f
        self.id = i
        self.lo = d["lo"]
        self.hi = d["hi"]
        self.file = d["file"]
        self.line = d["line"]
        self.col = d["col"]
        self.eline = d["eline"]
        self.ecol = d["ecol"]
        self.macros = d.get("macros", [])
        self.callsite_id = d.get("callsite")

    @property
    def root(self):
        """The root-context span: the span itself or the outermost macro call site."""
        if self.callsite_id is None:
            return self
        return self.f.span(self.callsite_id)

    @property
    def from_expansion(self):
        return bool(self.macros)

    def within(self, lo, hi):
        return lo <= self.lo and self.hi <= hi

    @property
    def loc(self):
        r = self.root
        return "%s:%d:%d" % (r.file, r.line, r.col)

    def __repr__(self):
        return self.loc


class Block:
    __slots__ = ("idx", "cleanup", "stmts", "term")

    def __init__(self, idx, d):
        self.idx = idx
        self.cleanup = d["cleanup"]
        self.stmts = d["stmts"]
        self.term = d["term"]


class Body:
    def __init__(self, f, d, name):
        self.f = f
        self.d = d
        self.name = name            # unique within the fact file
        self.defn = d["def"]
        self.def_kind = d["def_kind"]
        self.coroutine_kind = d.get("coroutine_kind")
        self.arg_count = d["arg_count"]
        self.root = d.get("root")       # typeck root fn (for closures / async bodies)
        self.parent = d.get("parent")
        self.locals = d["locals"]
        self.upvars = d.get("upvars", [])
        self.blocks = [Block(i, b) for i, b in enumerate(d["blocks"])]
        self.layout = d.get("layout")
        self.selects = d.get("selects", [])
        self.span = f.span(d["span"])

    @property
    def is_coroutine(self):
        return self.coroutine_kind is not None

    def layout_variants_at(self, term):
        """Coroutine-layout variants describing the suspension point of this yield / poll terminator: by its own span
        (also for suspension points of inlined async helpers, whose layouts were composed into this body's), else by the
        span of the caller's await the inlined code stands for."""
        if not self.layout:
            return []
        vs = [v for v in self.layout["variants"] if v["span"] == term["span"]]
        if not vs and "layout_span" in term:
            vs = [v for v in self.layout["variants"] if v["span"] == term["layout_span"]]
        return vs

    def local_ty(self, l):
        return self.f.ty(self.locals[l]["ty"])

    def local_name(self, l):
        return self.locals[l].get("name")

    def calls(self):
        for b in self.blocks:
            if b.term["k"] == "call":
                yield b

    def __repr__(self):
        return "<Body %s>" % self.name


# Where the public types and traits of the crate live in the layout the rules were written against. A maintainer may move
# one of them to another (private) module and re-export it: every def path and type string that mentions it is renamed back
# to this layout when the facts are loaded, so that the rules keep naming `actor_ref::ActorWeak` whatever file it sits in.
CANONICAL_HOME = {
    "ActorRef": "actor_ref", "ActorWeak": "actor_ref", "Error": "error", "ActorResult": "actor_result", "FailurePhase": "actor_result",
    "Identity": "", "DeadLetterReason": "dead_letter", "MetricsCollector": "metrics::collector", "MessageProcessingGuard": "metrics::collector",
    "MetricsSnapshot": "metrics::snapshot", "Actor": "actor", "Message": "actor", "TellHandler": "handler", "AskHandler": "handler",
    "WeakTellHandler": "handler", "WeakAskHandler": "handler", "ActorControl": "actor_control", "WeakActorControl": "actor_control",
}


def canonical_paths(text):
    import re
    try:
        d = json.loads(text)
    except ValueError:
        return text
    if d.get("crate") != "rsactor":
        return text
    defs = [a["def"] for a in d.get("adts", [])] + [t["def"] for t in d.get("traits", [])]
    names = [x.rsplit("::", 1)[-1] for x in defs]
    renames = []
    for x in defs:
        mod, _, name = x.rpartition("::")
        if name in CANONICAL_HOME and names.count(name) == 1 and mod != CANONICAL_HOME[name]:
            home = CANONICAL_HOME[name]
            renames.append((x, (home + "::" + name) if home else name))
    for old, new in renames:
        text = re.sub(r"(?<![A-Za-z0-9_:])" + re.escape(old) + r"(?![A-Za-z0-9_])", new, text)
    # an inherent impl block that sits in another module than its type (`blocking::<impl actor_ref::ActorRef<T>>::blocking_ask`)
    # names the same methods as one next to the type (`actor_ref::ActorRef::<T>::blocking_ask`)
    text = re.sub(r"(?<![A-Za-z0-9_:])(?:[a-z_][a-z0-9_]*::)+<impl ([A-Za-z0-9_:]+)<([A-Za-z0-9_, ']*)>>::", r"\1::<\2>::", text)
    text = re.sub(r"(?<![A-Za-z0-9_:])(?:[a-z_][a-z0-9_]*::)+<impl ([A-Za-z0-9_:]+)>::", r"\1::", text)
    return text


class Facts:
    def __init__(self, path, inline=None):
        with open(path) as fh:
            self.d = json.loads(canonical_paths(fh.read()))
        self.path = path
        self.crate = self.d["crate"]
        self.features = sorted(x for x in self.d["features"] if x != "default")
        self._types = {}
        self._spans = {}
        self.inline_log = []
        self._build()
        if inline is None:
            inline = os.environ.get("RSAV_NO_INLINE") != "1"
        if inline and self.crate == "rsactor":
            # canonical form: crate-private helpers without a role are inlined into their callers (see inline.py)
            import anchors
            import inline as inl
            self.path = path + "#raw"          # analyses used to find the roles cache under this key, not under the final one
            keep = anchors.keep_defs(self)
            il = inl.Inliner(self.d, keep)
            self.inline_log = il.run()
            self.inlined_helpers = sorted(il.removed)
            self.path = path
            self._build()

    def _build(self):
        self.bodies = {}
        self.by_def = {}
        counts = {}
        for bd in self.d["bodies"]:
            n = bd["def"]
            c = counts.get(n, 0)
            counts[n] = c + 1
            name = n if c == 0 else "%s#%d" % (n, c)
            b = Body(self, bd, name)
            self.bodies[name] = b
            self.by_def.setdefault(n, []).append(b)
        self.adts = {a["def"]: a for a in self.d["adts"]}
        self.impls = self.d["impls"]
        self.traits = {t["def"]: t for t in self.d["traits"]}
        self.statics = self.d["statics"]
        self.consts = self.d["consts"]
        self.fns = {}
        for fn in self.d["fns"]:
            self.fns[fn["def"]] = fn

    def ty(self, i):
        t = self._types.get(i)
        if t is None:
            t = Ty(self, i, self.d["types"][i])
            self._types[i] = t
        return t

    def span(self, i):
        s = self._spans.get(i)
        if s is None:
            s = Span(self, i, self.d["spans"][i])
            self._spans[i] = s
        return s

    def body(self, defn):
        """The unique body with this def path (fail closed if missing/ambiguous)."""
        bs = self.by_def.get(defn, [])
        if len(bs) != 1:
            return None
        return bs[0]

    def fn_bodies(self):
        """Bodies that are functions, closures or coroutines (not consts/statics)."""
        for b in self.bodies.values():
            if b.def_kind in ("Fn", "AssocFn", "Closure") or b.def_kind.startswith("Closure"):
                yield b

    def family(self, root_def):
        """A fn item and all closures/coroutines nested in it."""
        out = []
        for b in self.fn_bodies():
            if b.defn == root_def or b.root == root_def:
                out.append(b)
        return out

    def config_name(self):
        return "+".join(self.features) if self.features else "default"
