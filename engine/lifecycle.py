"""Shared analysis of the actor lifecycle function (used by C01, C04-C08, C12, C14, C20).

Anchors are semantic: the lifecycle body is the unique crate body that calls
`<T as Actor>::on_start`; hooks are identified by trait path; the select! site by the
`tokio::select` expansion; branch futures by the resolved calls whose root spans lie in the
branch's future span (DSL facts)."""
from absint import AbsInt
from cfg import CFG, callee, const_int
from prov import Tracer, strip_refs, strip_wrappers, fn_path, show

ACTOR_TRAIT = "rsactor::actor::Actor::"
HOOKS = {
    ACTOR_TRAIT + "on_start": "on_start",
    ACTOR_TRAIT + "on_run": "on_run",
    ACTOR_TRAIT + "on_stop": "on_stop",
    "rsactor::PayloadHandler::handle_message": "handle_message",
}
TRANSPARENT_PATHS = {
    "tracing::instrument::Instrument::instrument": 0,
    "core::future::into_future::IntoFuture::into_future": 0,
    "futures_util::future::future::FutureExt::boxed": 0,
}


def is_scope_call(term):
    fn = term.get("fn") or {}
    return fn.get("name") == "scope" and "LocalKey" in (fn.get("def") or "") and fn.get("krate") == "tokio"


def hook_of(term):
    return HOOKS.get(fn_path(term) or "")


def recv_kind(f, term):
    """'ctrl' / 'mailbox' for Receiver::recv calls on the two channels."""
    fn = term.get("fn") or {}
    if fn.get("name") != "recv":
        return None
    return receiver_chan(f, term)


def receiver_chan(f, term):
    """Which channel a `tokio::sync::mpsc::Receiver` method call operates on."""
    fn = term.get("fn") or {}
    if fn.get("krate") != "tokio" or "mpsc" not in fn.get("def", "") or "Receiver" not in fn.get("def", ""):
        return None
    ta = [f.ty(t) for t in fn.get("targs", [])]
    if not ta:
        return None
    import anchors
    nm = anchors.names(f)
    if ta[0].k == "adt" and ta[0].defn == nm.control:
        return "ctrl"
    if ta[0].k == "adt" and ta[0].defn == nm.mailbox:
        return "mailbox"
    return "other"


class FutureRoot:
    """Result of looking through transparent future wrappers."""

    def __init__(self, term_t, call_bb, wrappers, scope_bb):
        self.t = term_t
        self.call_bb = call_bb
        self.wrappers = wrappers
        self.scope_bb = scope_bb


def future_root(tr, t, depth=0):
    """Look through instrument / scope / into_future / boxed to the call that produced the
    future. Returns FutureRoot (call_bb None if the root is not a call)."""
    wrappers = []
    scope_bb = None
    guard = 0
    while guard < 30:
        guard += 1
        t = strip_wrappers(t)
        if t[0] == "call":
            term = tr.call_term(t[1])
            p = fn_path(term)
            if p in TRANSPARENT_PATHS:
                wrappers.append(p.split("::")[-1])
                t = tr.call_args(t[1])[TRANSPARENT_PATHS[p]]
                continue
            if is_scope_call(term):
                wrappers.append("scope")
                scope_bb = t[1]
                t = tr.call_args(t[1])[2]
                continue
            return FutureRoot(t, t[1], wrappers, scope_bb)
        return FutureRoot(t, None, wrappers, scope_bb)
    return FutureRoot(t, None, wrappers, scope_bb)


class Lifecycle:
    def __init__(self, facts):
        self.f = facts
        self.errors = []
        self.body = None
        cands = []
        for b in facts.fn_bodies():
            for blk in b.calls():
                if hook_of(blk.term) == "on_start":
                    cands.append(b)
                    break
        if len(cands) != 1:
            self.errors.append("expected exactly one body calling Actor::on_start, found %d" % len(cands))
            return
        self.body = b = cands[0]
        self.root_fn = b.root or b.defn
        self.cfg = CFG(b, unwind=False)
        self.cfg_uw = CFG(b, unwind=True, cancel=True)
        self.tr = Tracer(b)
        self.hooks = {"on_start": [], "on_run": [], "on_stop": [], "handle_message": []}
        self.recvs = {"ctrl": [], "mailbox": [], "other": []}
        for blk in b.calls():
            if blk.idx not in self.cfg.live:
                continue
            h = hook_of(blk.term)
            if h:
                self.hooks[h].append(blk.idx)
            rk = recv_kind(facts, blk.term)
            if rk:
                self.recvs[rk].append(blk.idx)
        self._find_select()
        self._find_awaits()
        self._label_switches()

    # ---- select --------------------------------------------------------------------------
    def _select_branches(self, pf_bb):
        """Branch table of the select! whose poll_fn call is in pf_bb: per branch the root call
        of its future (through transparent wrappers)."""
        f = self.f
        args = self.tr.call_args(pf_bb)
        closure = None
        tup = None
        if args and args[0][0] == "agg" and args[0][1][0] == "closure":
            closure = args[0][1][1]
            for op in args[0][2]:
                t = strip_refs(op)
                if t[0] == "agg" and t[1] == ("tuple",):
                    tup = t
        if tup is None:
            return closure, None
        out = []
        for i, el in enumerate(tup[2]):
            root = future_root(self.tr, el)
            kind = None
            if root.call_bb is not None:
                term = self.tr.call_term(root.call_bb)
                kind = hook_of(term) or (recv_kind(f, term) and "recv_" + recv_kind(f, term))
            out.append({"index": i, "kind": kind, "call_bb": root.call_bb, "root": root})
        return closure, out

    def _find_select(self):
        b, f = self.body, self.f
        self.select_sites = []
        seen = set()
        for s in b.selects:
            cs = f.span(s["callsite"])
            if (cs.lo, cs.hi) in seen:
                continue
            seen.add((cs.lo, cs.hi))
            self.select_sites.append(s)
        self.select = None
        self.poll_fn_bb = None
        self.sel_branches = []      # branches of the main select (the one that receives from the mailbox)
        self.select_closure = None
        self.dsl_ok = False
        self.all_selects = {}       # poll_fn bb -> {"branches", "closure", "dsl"}
        for blk in b.calls():
            if blk.idx in self.cfg.live and callee(blk.term) in ("std::future::poll_fn", "core::future::poll_fn") and \
                    any(m == "tokio::select" for m in f.span(blk.term["span"]).macros):
                closure, branches = self._select_branches(blk.idx)
                root = f.span(blk.term["span"]).root
                dsl = [s for s in self.select_sites if (f.span(s["callsite"]).lo, f.span(s["callsite"]).hi) == (root.lo, root.hi)]
                self.all_selects[blk.idx] = {"branches": branches, "closure": closure, "dsl": dsl[0] if len(dsl) == 1 else None}
        self.poll_fn_sites = sorted(self.all_selects)
        mains = [pf for pf, s in self.all_selects.items() if s["branches"] and any(br["kind"] == "recv_mailbox" for br in s["branches"])]
        if len(mains) != 1:
            self.errors.append("expected exactly one tokio::select! that receives from the mailbox in the lifecycle body (found %d of %d select sites)" % (len(mains), len(self.all_selects)))
            return
        self.poll_fn_bb = mains[0]
        m = self.all_selects[mains[0]]
        self.sel_branches = m["branches"]
        self.select_closure = m["closure"]
        self.select = m["dsl"]
        if self.select is None:
            self.errors.append("cannot map the lifecycle select! onto its macro call site")
            return
        # DSL cross-check: the resolved root call of branch i lies in the DSL branch's future span
        dsl = self.select.get("branches", [])
        self.dsl_ok = len(dsl) == len(self.sel_branches) and "error" not in self.select
        if self.dsl_ok:
            for i, br in enumerate(dsl):
                cb = self.sel_branches[i]["call_bb"]
                if cb is None:
                    self.dsl_ok = False
                    continue
                sp = f.span(self.tr.call_term(cb)["span"]).root
                if not sp.within(br["future_lo"], br["future_hi"]):
                    # a branch written as a bare variable (`r = idle, if enabled => ..`) polls a future built elsewhere
                    # (handed to a spliced-in helper): there is no call inside the branch expression to compare with
                    import re
                    if not re.fullmatch(r"[A-Za-z_][A-Za-z0-9_]*", (br.get("future") or "").strip()):
                        self.dsl_ok = False

    # ---- awaits --------------------------------------------------------------------------
    def _find_awaits(self):
        """poll call blocks -> root of the awaited future."""
        self.awaits = {}      # poll_bb -> FutureRoot
        for blk in self.body.calls():
            if blk.idx in self.cfg.live and fn_path(blk.term) == "core::future::future::Future::poll":
                fut = self.tr.awaited_future(blk.idx)
                self.awaits[blk.idx] = future_root(self.tr, fut)
        self.hook_awaits = {}  # hook call bb -> [poll bbs]
        for pbb, root in self.awaits.items():
            if root.call_bb is not None and hook_of(self.tr.call_term(root.call_bb)):
                self.hook_awaits.setdefault(root.call_bb, []).append(pbb)
        self.select_await = [p for p, r in self.awaits.items() if r.call_bb == self.poll_fn_bb]

    # ---- value classification --------------------------------------------------------------
    def classify(self, t):
        """What runtime source does term t (normalised) denote?
        ("hook", name, call_bb) | ("recv", kind, call_bb) | ("select_out",) | None."""
        t = strip_wrappers(t)
        if t[0] == "await":
            root = future_root(self.tr, t[1])
            if root.call_bb is None:
                return None
            term = self.tr.call_term(root.call_bb)
            h = hook_of(term)
            if h:
                return ("hook", h, root.call_bb)
            rk = recv_kind(self.f, term)
            if rk:
                return ("recv", rk, root.call_bb)
            if root.call_bb == self.poll_fn_bb:
                return ("select_out",)
            if root.call_bb in self.all_selects:
                return ("select_out", root.call_bb)
            return None
        if t[0] == "field" and t[1] == 0 and t[2][0] == "downcast":
            inner = self.classify(t[2][2])
            if inner and inner[0] == "select_out":
                name = t[2][1]
                branches = self.sel_branches if len(inner) == 1 else (self.all_selects[inner[1]]["branches"] or [])
                if name.startswith("_") and name[1:].isdigit():
                    i = int(name[1:])
                    if i < len(branches):
                        br = branches[i]
                        if br["kind"] in ("on_start", "on_run", "on_stop", "handle_message"):
                            return ("hook", br["kind"], br["call_bb"])
                        if br["kind"] and br["kind"].startswith("recv_"):
                            return ("recv", br["kind"][5:], br["call_bb"])
                return ("select_payload", name)
            if inner and inner[0] in ("hook", "recv"):
                return inner + (("payload", t[2][1]),)
        return None

    # ---- switch labelling ------------------------------------------------------------------
    def _switch_subject(self, blk):
        """For a switch terminator: (kind, term, enum type) where kind is 'discr' or 'value'."""
        t = blk.term
        op = t["discr"]
        pl = op.get("copy") or op.get("move")
        if pl is None:
            return None
        if not pl["p"]:
            ds = self.tr.defs.get(pl["l"], [])
            if len(ds) == 1 and ds[0][0] == "assign" and "discr" in ds[0][3]:
                rv = ds[0][3]
                return ("discr", self.tr.norm(self.tr.place(rv["discr"])), self.f.ty(rv["ty"]))
        return ("value", self.tr.norm(self.tr.place(pl)), self.f.ty(t["discr_ty"]))

    def variant_names(self, ty):
        if ty.k != "adt":
            return None
        d = ty.defn
        if d == "std::option::Option":
            return ["None", "Some"]
        if d == "std::result::Result":
            return ["Ok", "Err"]
        if d == "std::task::Poll":
            return ["Ready", "Pending"]
        a = self.f.adts.get(d)
        if a:
            return [v["name"] for v in a["variants"]]
        return None

    def _label_switches(self):
        """edge labels: bb -> {succ: {flags}} and arm tables for the rules."""
        self.labels = {}
        self.switch_info = {}   # bb -> dict(kind, subject, cls, arms{name: target})
        for blk in self.body.blocks:
            if blk.term["k"] != "switch" or blk.idx not in self.cfg.live:
                continue
            sub = self._switch_subject(blk)
            if not sub:
                continue
            kind, term, ty = sub
            pred_arms = None
            if kind == "value" and ty.k == "bool":
                # `if x.is_some() {A} else {B}` is `match x { Some(_) => A, None => B }` (likewise is_none / is_ok / is_err)
                tv = strip_wrappers(term)
                if tv[0] == "call":
                    cfn = self.tr.call_term(tv[1]).get("fn") or {}
                    pm = {"is_some": ("Some", "None"), "is_none": ("None", "Some"), "is_ok": ("Ok", "Err"), "is_err": ("Err", "Ok")}.get(cfn.get("name"))
                    if pm and (cfn.get("def") or "").startswith(("std::option::Option", "std::result::Result")) and self.tr.call_term(tv[1])["args"]:
                        a0 = self.tr.call_term(tv[1])["args"][0]
                        pl0 = a0.get("move") or a0.get("copy")
                        if pl0 is not None:
                            aty = self.body.local_ty(pl0["l"]).peel_refs()
                            t_arm = f_arm = None
                            for v, tgt in blk.term["arms"]:
                                if int(v) == 0:
                                    f_arm = tgt
                                else:
                                    t_arm = tgt
                            if f_arm is None:
                                f_arm = blk.term["otherwise"]
                            if t_arm is None:
                                t_arm = blk.term["otherwise"]
                            kind, term, ty = "discr", strip_wrappers(self.tr.norm(self.tr.call_args(tv[1])[0])), aty
                            pred_arms = {pm[0]: t_arm, pm[1]: f_arm}
            cls = self.classify(term)
            arms = {}
            if pred_arms is not None:
                arms = pred_arms
            elif kind == "discr":
                names = self.variant_names(ty)
                if names:
                    for v, tgt in blk.term["arms"]:
                        if int(v) < len(names):
                            arms[names[int(v)]] = tgt
                    rest = [n for n in names if n not in arms]
                    if len(rest) == 1:
                        arms[rest[0]] = blk.term["otherwise"]
            else:
                if ty.k == "bool":
                    for v, tgt in blk.term["arms"]:
                        arms["false" if int(v) == 0 else "true"] = tgt
                    if "false" in arms and "true" not in arms:
                        arms["true"] = blk.term["otherwise"]
                    elif "true" in arms and "false" not in arms:
                        arms["false"] = blk.term["otherwise"]
            self.switch_info[blk.idx] = {"kind": kind, "term": term, "ty": ty, "cls": cls, "arms": arms}
            lab = {}
            if cls and cls[0] == "hook" and len(cls) == 3 and kind == "discr" and ty.defn == "std::result::Result":
                h = cls[1]
                if "Err" in arms:
                    lab.setdefault(arms["Err"], set()).add("%s_err" % h)
                    lab[arms["Err"]].add("%s_err@%d" % (h, cls[2]))
                if "Ok" in arms:
                    lab.setdefault(arms["Ok"], set()).add("%s_ok" % h)
            if cls and cls[0] == "recv" and cls[1] == "ctrl" and len(cls) == 3 and kind == "discr":
                if "Some" in arms:
                    lab.setdefault(arms["Some"], set()).add("ctrl_some")
                if "None" in arms:
                    lab.setdefault(arms["None"], set()).add("ctrl_none")
            if cls and cls[0] == "recv" and cls[1] == "mailbox" and len(cls) == 3 and kind == "discr":
                if "Some" in arms:
                    lab.setdefault(arms["Some"], set()).add("mbox_some")
                if "None" in arms:
                    lab.setdefault(arms["None"], set()).add("mbox_none")
            if cls and cls[0] == "recv" and cls[1] == "mailbox" and len(cls) == 4 and cls[3] == ("payload", "Some") and kind == "discr":
                for n, tgt in arms.items():
                    lab.setdefault(tgt, set()).add("mbox_%s" % n)
            if cls and cls[0] == "hook" and cls[1] == "on_run" and len(cls) == 4 and cls[3] == ("payload", "Ok") and kind == "value":
                for n, tgt in arms.items():
                    lab.setdefault(tgt, set()).add("on_run_%s" % n)
            if cls == ("select_out",) and kind == "discr":
                for n, tgt in arms.items():
                    lab.setdefault(tgt, set()).add("sel%s" % n)
            if lab:
                self.labels[blk.idx] = {k: frozenset(v) for k, v in lab.items()}

    # ---- abstract exploration --------------------------------------------------------------
    def explore(self):
        if getattr(self, "_ai", None) is not None:
            return self._ai
        hook_blocks = {}
        for h, bbs in self.hooks.items():
            for bb in bbs:
                hook_blocks[bb] = h

        def events(bb):
            return hook_blocks.get(bb)

        ret_adt = "actor_result::ActorResult"

        def agg_value(bb, rv, store):
            """An ActorResult aggregate as an abstract value: it may be built into a temporary (e.g. the return place of an
            inlined constructor helper) and moved to the return place later."""
            if rv["agg"] == "adt" and rv["adt"] == ret_adt:
                fields = []
                for name, op in zip(rv["fields"], rv["ops"]):
                    v = ai._eval_operand(op, store)
                    if v is not None and v[0] == "t":
                        pass
                    elif v is None or v[0] not in ("c", "e"):
                        v = ("t", self.tr.norm(self.tr.operand(op)))
                    fields.append((name, v))
                return ("agg", (rv["variant"], tuple(fields), bb))
            return None

        def on_assign(bb, i, st, store, flags, counters, extra):
            if st["place"]["l"] == 0 and not st["place"]["p"]:
                rv = st["rv"]
                if "agg" in rv and rv["agg"] == "adt" and rv["adt"] == ret_adt:
                    return agg_value(bb, rv, store)[1]
                if "use" in rv:
                    v = ai._eval_operand(rv["use"], store)
                    if v is not None and v[0] == "agg":
                        return v[1]
                return ("other", (), bb)
            return extra

        def on_call(bb, t, store, flags, counters, extra):
            """`return helper(actor, e, killed)`: see through pure constructor helpers."""
            if t["dest"]["l"] != 0 or t["dest"]["p"]:
                return extra
            from prov import ctor_summary, substitute_params
            fn = t.get("fn") or {}
            d = (fn.get("resolved") or {}).get("def") or fn.get("def")
            sm = ctor_summary(self.f, d, adts=(ret_adt,)) if d else None
            if sm is None:
                return ("other", (), bb)
            r, ctr = sm
            core = strip_wrappers(r)
            if not (core[0] == "agg" and core[1][0] == "adt" and core[1][1] == ret_adt):
                return ("other", (), bb)
            arg_terms = [self.tr.norm(self.tr.operand(a)) for a in t["args"]]
            fields = []
            for name, ft in zip(core[1][3], core[2]):
                ft = strip_wrappers(ft) if ft[0] in ("ref", "deref") else ft
                v = None
                if ft[0] == "param" and len(ft) == 2 and 0 < ft[1] <= len(t["args"]):
                    v = ai._eval_operand(t["args"][ft[1] - 1], store)
                    if v is None:
                        v = ("t", arg_terms[ft[1] - 1])
                elif ft[0] == "int":
                    v = ("c", ft[1])
                elif ft[0] == "const" and ft[1] in ("true", "false"):
                    v = ("c", 1 if ft[1] == "true" else 0)
                elif ft[0] == "agg" and ft[1][0] == "adt" and not ft[2]:
                    v = ("e", ft[1][1], ft[1][2])
                else:
                    v = ("t", substitute_params(ft, arg_terms, ctr))
                fields.append((name, v))
            return (core[1][2], tuple(fields), bb)

        # per-iteration facts are forgotten when a new select! is started; outcomes of hooks
        # and the consumption of a control signal are sticky
        # T4: a select! branch whose precondition is false cannot be the one that completes
        idle_local, _ = find_idle_local(self) if self.select is not None and "error" not in self.select else (None, None)
        sel_switch = {}
        for sbb, info in self.switch_info.items():
            if info["cls"] == ("select_out",):
                for i, br in enumerate(self.sel_branches):
                    if br["kind"] == "on_run" and ("_%d" % i) in info["arms"]:
                        sel_switch[sbb] = info["arms"]["_%d" % i]

        def edge_filter(bb, store):
            if idle_local is not None and bb in sel_switch and store.get(idle_local) == ("c", 0):
                return {sel_switch[bb]}
            return ()

        ai = AbsInt(self.body, self.cfg, self.tr, edge_labels=lambda bb: self.labels.get(bb), events=events, edge_filter=edge_filter,
                    on_assign=on_assign, on_call=on_call, agg_value=agg_value, reset_at=[self.poll_fn_bb] if self.poll_fn_bb is not None else [],
                    reset_prefixes=("sel", "mbox_", "on_run_true", "on_run_false", "on_run_ok", "ctrl_none"),
                    reset_counters=("handle_message", "on_run"))
        def assign_fork(bb, i, st, store):
            """`flag = <the bool returned by on_run>`: the two cases Ok(true) / Ok(false), labelled like the arms of a match."""
            rv = st["rv"]
            if "use" not in rv:
                return None
            l = st["place"]["l"]
            if l >= len(self.body.locals) or self.body.local_ty(l).k != "bool":
                return None
            if ai._eval_operand(rv["use"], store) is not None:
                return None         # already decided (a copy of a value that was split before)
            c = self.classify(self.tr.norm(self.tr.operand(rv["use"])))
            if c and c[:2] == ("hook", "on_run") and len(c) == 4 and c[3] == ("payload", "Ok"):
                return [(("c", 1), ("on_run_true",)), (("c", 0), ("on_run_false",))]
            return None

        def call_fork(bb, t, store):
            """`killed = received.is_some()` on what the control channel's recv returned: the two cases of the match."""
            fn = t.get("fn") or {}
            pm = {"is_some": (("ctrl_some",), ("ctrl_none",)), "is_none": (("ctrl_none",), ("ctrl_some",))}.get(fn.get("name"))
            if not pm or not (fn.get("def") or "").startswith("std::option::Option") or not t["args"]:
                return None
            c = self.classify(strip_wrappers(self.tr.norm(self.tr.operand(t["args"][0]))))
            if c and c[:2] == ("recv", "ctrl") and len(c) == 3:
                return [(("c", 1), pm[0]), (("c", 0), pm[1])]
            return None

        ai.assign_fork = assign_fork
        ai.call_fork = call_fork
        ai.run()
        self._ai = ai
        return ai

    def loc(self, bb):
        return self.f.span(self.body.blocks[bb].term["span"]).loc

    def ctrl_branch_targets(self):
        """Blocks where the handler of the select!'s control-recv branch starts."""
        out = []
        for bb, info in self.switch_info.items():
            if info["cls"] == ("select_out",):
                for i, br in enumerate(self.sel_branches):
                    if br["kind"] == "recv_ctrl" and ("_%d" % i) in info["arms"]:
                        out.append(info["arms"]["_%d" % i])
        return out

    def ctrl_split_by_predicate(self):
        """True when the received control signal is not matched but turned into a bool (`killed = received.is_some()`):
        the exploration then splits the two cases at that call (flags ctrl_some / ctrl_none)."""
        ai = self.explore()
        has_switch = any(i["cls"] and i["cls"][:2] == ("recv", "ctrl") and "Some" in i["arms"] for i in self.switch_info.values())
        return (not has_switch) and any("ctrl_some" in s[2] for s in ai.states) and any("ctrl_none" in s[2] for s in ai.states)


def find_idle_local(lc):
    """The local read by the precondition of the on_run branch (via the DSL cond span)."""
    s = lc.select
    idx = [i for i, b in enumerate(lc.sel_branches) if b["kind"] == "on_run"]
    if not idx or idx[0] >= len(s["branches"]):
        return None, "on_run is not a select! branch"
    br = s["branches"][idx[0]]
    if "cond" not in br:
        return None, "the on_run branch has no precondition"
    if len(br.get("cond_tokens", [])) != 1:
        return None, "the precondition `%s` is not a single variable" % br["cond"]
    lo, hi = br["cond_lo"], br["cond_hi"]
    f, b = lc.f, lc.body
    found = set()
    for blk in b.blocks:
        for st in blk.stmts:
            if st["k"] == "assign" and "use" in st["rv"]:
                sp = f.span(st["span"])
                op = st["rv"]["use"]
                pl = op.get("copy") or op.get("move")
                if pl is not None and not pl["p"] and not sp.from_expansion and sp.lo == lo and sp.hi == hi:
                    found.add(pl["l"])
    if len(found) != 1:
        return None, "cannot map the precondition `%s` to one local (%s)" % (br["cond"], sorted(found))
    l = found.pop()
    # the select! may sit in a spliced-in helper that receives the flag by value: its parameter is a per-round copy of the
    # caller's variable, which is the one that carries the state from round to round
    for _ in range(4):
        ds = [(blk.idx, st) for blk in b.blocks for st in blk.stmts if st["k"] == "assign" and not st["place"]["p"] and st["place"]["l"] == l]
        other = any(blk.term["k"] == "call" and not blk.term["dest"]["p"] and blk.term["dest"]["l"] == l for blk in b.blocks)
        if len(ds) != 1 or other or "use" not in ds[0][1]["rv"]:
            break
        src = ds[0][1]["rv"]["use"].get("copy") or ds[0][1]["rv"]["use"].get("move")
        if src is None or src["p"] or f.ty(b.locals[src["l"]]["ty"]).k != "bool":
            break
        l = src["l"]
    return l, None



_cache = {}


def get(facts):
    lc = _cache.get(facts.path)
    if lc is None:
        lc = Lifecycle(facts)
        _cache[facts.path] = lc
    return lc
