"""E3 abstract reachability: product of a body's CFG with a small finite store.

Store: constant values of locals (ints/bools, unit enum variants) assigned from constants or
copied from tracked locals. Locals whose address is taken mutably are never tracked.
Structured values: an aggregate of a tracked ADT (Result / Option / Poll / ControlFlow and the crate's own structs and
enums) is the value ("v", adt, variant, index, components); components are constants, nested values, client values
(`agg_value`) or ("t", provenance term of the operand at the construction site). They travel with moves, are taken
apart by field / downcast projections, decide `discriminant`, `is_err`-style predicates and `Try::branch`, so that a
Result built on one path of an (inlined) helper and tested by its caller keeps the two paths apart.
Flags: sticky labels attached to CFG edges by a caller-supplied labelling (outcome of a hook,
consumption of a control signal, ...). Counters: saturating (0,1,2) per event name.
The state space is finite; exploration is a plain worklist search (no solver, no execution).
"""
from collections import deque

from cfg import const_int


class AbsInt:
    def __init__(self, body, cfg, tracer, edge_labels=None, events=None, on_assign=None, max_states=400000,
                 reset_at=(), reset_prefixes=(), reset_counters=(), edge_filter=None, on_call=None, agg_value=None):
        self.body = body
        self.cfg = cfg
        self.tr = tracer
        self.edge_labels = edge_labels or (lambda bb: {})
        self.events = events or (lambda bb: None)
        self.on_assign = on_assign
        self.max_states = max_states
        self.edge_filter = edge_filter
        self.on_call = on_call
        self.agg_value = agg_value
        self.assign_fork = None
        self.call_fork = None
        self.track_values = True
        self.reset_at = set(reset_at)
        self.reset_prefixes = tuple(reset_prefixes)
        self.reset_counters = set(reset_counters)
        self.untracked = set()
        for b in body.blocks:
            for st in b.stmts:
                if st["k"] == "assign":
                    rv = st["rv"]
                    if ("ref" in rv and rv.get("mut")) or "rawptr" in rv:
                        pl = rv.get("ref") or rv.get("rawptr")
                        if not any(e == "*" for e in pl["p"]):
                            self.untracked.add(pl["l"])
        self.states = set()
        self.by_block = {}
        self.edges = 0
        self.exhausted = False
        self._labels_cache = {}

    # ---- values --------------------------------------------------------------------------
    STD_V = {"Ok": 0, "Err": 1, "None": 0, "Some": 1, "Ready": 0, "Pending": 1, "Continue": 0, "Break": 1}
    STD_ADTS = ("std::result::Result", "std::option::Option", "std::task::Poll", "std::ops::ControlFlow")

    def _project(self, v, proj):
        proj = list(proj)
        while proj and v is not None:
            e = proj.pop(0)
            if e == "*":
                v = v[1] if v[0] == "ref" else None
            elif isinstance(e, dict) and "v" in e:
                if v[0] == "v" and (e.get("name") == v[2] or e.get("v") == v[3]):
                    continue
                v = None
            elif isinstance(e, int):
                v = v[4][e] if v[0] == "v" and e < len(v[4]) else None
            else:
                v = None
        return v

    def _eval_operand(self, op, store):
        c = const_int(op)
        if c is not None:
            return ("c", c)
        pl = op.get("copy") or op.get("move")
        if pl is not None:
            v = store.get(pl["l"])
            if not pl["p"] or v is None:
                return v if not pl["p"] else None
            return self._project(v, pl["p"])
        return None

    def _variant_index(self, v):
        if v[0] == "v":
            return v[3]
        if v[0] == "e":
            if v[1] in self.STD_ADTS:
                return self.STD_V.get(v[2])
            a = self.body.f.adts.get(v[1])
            if a:
                names = [x["name"] for x in a["variants"]]
                return names.index(v[2]) if v[2] in names else None
        return None

    def _eval_rvalue(self, rv, store):
        if "use" in rv:
            return self._eval_operand(rv["use"], store)
        if "cast" in rv and rv["kind"] in ("IntToInt",):
            return self._eval_operand(rv["cast"], store)
        if "agg" in rv and rv["agg"] == "adt" and not rv["ops"]:
            return ("e", rv["adt"], rv["variant"])
        if "unop" in rv and rv["unop"] == "Not":
            v = self._eval_operand(rv["a"], store)
            if v and v[0] == "c" and v[1] in (0, 1):
                return ("c", 1 - v[1])
        if self.track_values:
            if "ref" in rv and not rv.get("mut"):
                v = store.get(rv["ref"]["l"])
                v = self._project(v, rv["ref"]["p"]) if v is not None and rv["ref"]["p"] else v
                return ("ref", v) if v is not None else None
            if "discr" in rv and isinstance(rv["discr"], dict) and "l" in rv["discr"]:
                v = store.get(rv["discr"]["l"])
                v = self._project(v, rv["discr"]["p"]) if v is not None and rv["discr"]["p"] else v
                if v is not None and v[0] in ("v", "e"):
                    i = self._variant_index(v)
                    return ("c", i) if i is not None else None
        return None

    def _struct_value(self, bb, rv, store):
        """("v", adt, variant, index, components) for aggregates of tracked ADTs."""
        if rv.get("agg") == "tuple" and rv["ops"]:
            # `match (exit, stop_result) {..}`: a tuple of tracked values is tracked component-wise
            comps = [self._eval_operand(op, store) for op in rv["ops"]]
            if not any(c is not None and c[0] in ("v", "e", "c") for c in comps):
                return None
            comps = [c if c is not None else ("t", self.tr.norm(self.tr.operand(op))) for c, op in zip(comps, rv["ops"])]
            return ("v", "(tuple)", None, 0, tuple(comps))
        if rv.get("agg") != "adt" or not rv["ops"]:
            return None
        adt = rv["adt"]
        if adt not in self.STD_ADTS and adt not in self.body.f.adts:
            return None
        comps = []
        for op in rv["ops"]:
            v = self._eval_operand(op, store)
            if v is None:
                v = ("t", self.tr.norm(self.tr.operand(op)))
            comps.append(v)
        return ("v", adt, rv["variant"], rv.get("vidx", 0), tuple(comps))

    def _call_value(self, t, store):
        """Result of the std predicates / `?` plumbing on a structured value."""
        fn = t.get("fn") or {}
        nm = fn.get("name")
        a0 = self._eval_operand(t["args"][0], store) if t["args"] else None
        if a0 is None:
            return None
        x = a0[1] if a0[0] == "ref" else a0
        if x is None:
            return None
        tag = x[2] if x[0] in ("v", "e") else None
        if nm in ("is_err", "is_ok", "is_some", "is_none") and tag in self.STD_V:
            want = {"is_err": "Err", "is_ok": "Ok", "is_some": "Some", "is_none": "None"}[nm]
            return ("c", 1 if tag == want else 0)
        if nm == "branch" and a0[0] in ("v", "e") and tag in ("Ok", "Some", "Err", "None"):
            payload = a0[4] if a0[0] == "v" else ()
            if tag in ("Ok", "Some"):
                return ("v", "std::ops::ControlFlow", "Continue", 0, payload)
            return ("v", "std::ops::ControlFlow", "Break", 1, (a0,))
        if nm == "from_residual" and a0[0] in ("v", "e") and tag in ("Err", "None"):
            return a0
        return None

    def run(self, extra_init=None):
        init = (0, frozenset(), frozenset(), frozenset(), extra_init)
        dq = deque([init])
        self.states.add(init)
        while dq:
            st = dq.popleft()
            if len(self.states) > self.max_states:
                self.exhausted = True
                break
            for nxt in self.step(st):
                self.edges += 1
                if nxt not in self.states:
                    self.states.add(nxt)
                    dq.append(nxt)
        for s in self.states:
            self.by_block.setdefault(s[0], []).append(s)
        return self

    def step(self, state):
        bb, store_f, flags, counters, extra = state
        store = dict(store_f)
        if bb in self.reset_at:
            flags = frozenset(x for x in flags if not x.startswith(self.reset_prefixes))
            counters = frozenset((k, v) for k, v in counters if k not in self.reset_counters)
        return self._step_from(bb, 0, store, flags, counters, extra)

    def _step_from(self, bb, start, store, flags, counters, extra):
        blk = self.body.blocks[bb]
        for i, st in enumerate(blk.stmts):
            if i < start:
                continue
            k = st["k"]
            if k == "assign" and self.assign_fork is not None and not st["place"]["p"]:
                alts = self.assign_fork(bb, i, st, store)
                if alts:
                    # a value the client splits by cases (e.g. the bool returned by a hook): one successor family per case
                    out = []
                    for val, add in alts:
                        s2 = dict(store)
                        if val is None:
                            s2.pop(st["place"]["l"], None)
                        else:
                            s2[st["place"]["l"]] = val
                        out += self._step_from(bb, i + 1, s2, flags | frozenset(add), counters, extra)
                    return out
            if k == "assign":
                pl = st["place"]
                l = pl["l"]
                if pl["p"]:
                    if not any(e == "*" for e in pl["p"]):
                        store.pop(l, None)
                    continue
                v = self._eval_rvalue(st["rv"], store) if l not in self.untracked else None
                if v is None and self.agg_value is not None and "agg" in st["rv"]:
                    v = self.agg_value(bb, st["rv"], store)        # client-defined abstract value of an aggregate (travels with moves)
                if v is None and self.track_values and "agg" in st["rv"]:
                    v = self._struct_value(bb, st["rv"], store)
                if self.on_assign is not None:
                    extra = self.on_assign(bb, i, st, store, flags, counters, extra)
                if v is None:
                    store.pop(l, None)
                else:
                    store[l] = v
            elif k == "dead":
                store.pop(st["l"], None)
        t = blk.term
        ev = self.events(bb)
        if ev is not None:
            c = dict(counters)
            c[ev] = min(2, c.get(ev, 0) + 1)
            counters = frozenset(c.items())
        succs = self.cfg.succ[bb]
        if t["k"] == "call":
            if self.on_call is not None:
                extra = self.on_call(bb, t, store, flags, counters, extra)
            d = t["dest"]
            if not d["p"]:
                cv = self._call_value(t, store) if self.track_values else None
                alts = self.call_fork(bb, t, store) if (cv is None and self.call_fork is not None) else None
                if alts:
                    # the case may already be decided on this path (an earlier match / predicate on the same value set its flag)
                    decided = [a for a in alts if a[1] and set(a[1]) <= flags]
                    if len(decided) == 1:
                        alts = decided
                if alts and t.get("target") is not None and t["target"] in succs:
                    # a predicate on a runtime value the client splits by cases (`received.is_some()`)
                    out = []
                    for val, add in alts:
                        s2 = dict(store)
                        s2[d["l"]] = val
                        out.append((t["target"], frozenset(s2.items()), flags | frozenset(add), counters, extra))
                    for s_ in succs:
                        if s_ != t["target"]:
                            s2 = dict(store)
                            s2.pop(d["l"], None)
                            out.append((s_, frozenset(s2.items()), flags, counters, extra))
                    return out
                if cv is None:
                    store.pop(d["l"], None)
                else:
                    store[d["l"]] = cv
        elif t["k"] == "yield":
            d = t["resume_arg"]
            if not d["p"]:
                store.pop(d["l"], None)
        elif t["k"] == "switch":
            v = self._eval_operand(t["discr"], store)
            if v is not None and v[0] == "c":
                tgt = t["otherwise"]
                for val, b2 in t["arms"]:
                    if int(val) == v[1]:
                        tgt = b2
                succs = [tgt] if tgt in succs else succs
        labels = self._labels_cache.get(bb)
        if labels is None:
            labels = self.edge_labels(bb) or {}
            self._labels_cache[bb] = labels
        if t["k"] == "switch" and labels and len(succs) > 1:
            # the same outcome tested a second time on this path (a helper logs `if let Err(e) = &r`, its caller matches `r`
            # again): the arm that contradicts what the first test established is infeasible
            decided = [s for s in succs if labels.get(s) and set(labels[s]) <= flags]
            contra = [s for s in succs if labels.get(s) and not (set(labels[s]) <= flags)]
            if len(decided) == 1 and contra:
                succs = [s for s in succs if s not in contra]
        sf = frozenset(store.items())
        out = []
        if self.edge_filter is not None:
            drop = self.edge_filter(bb, store)
            if drop:
                succs = [s for s in succs if s not in drop]
        for s in succs:
            fl = flags
            add = labels.get(s)
            if add:
                fl = flags | frozenset(add)
            out.append((s, sf, fl, counters, extra))
        return out

    # ---- queries -------------------------------------------------------------------------
    def store_at_term(self, state):
        """The store after the statements of the state's block (i.e. at its terminator)."""
        bb, store_f = state[0], state[1]
        store = dict(store_f)
        for st in self.body.blocks[bb].stmts:
            k = st["k"]
            if k == "assign":
                pl = st["place"]
                l = pl["l"]
                if pl["p"]:
                    if not any(e == "*" for e in pl["p"]):
                        store.pop(l, None)
                    continue
                v = self._eval_rvalue(st["rv"], store) if l not in self.untracked else None
                if v is None and self.agg_value is not None and "agg" in st["rv"]:
                    v = self.agg_value(bb, st["rv"], store)
                if v is None and self.track_values and "agg" in st["rv"]:
                    v = self._struct_value(bb, st["rv"], store)
                if v is None:
                    store.pop(l, None)
                else:
                    store[l] = v
            elif k == "dead":
                store.pop(st["l"], None)
        return store

    def operand_value_at_term(self, state, op):
        return self._eval_operand(op, self.store_at_term(state))

    def states_at(self, bb):
        return self.by_block.get(bb, [])

    @staticmethod
    def store_of(state):
        return dict(state[1])

    @staticmethod
    def flags_of(state):
        return state[2]

    @staticmethod
    def counters_of(state):
        return dict(state[3])
