"""E3 abstract reachability: product of a body's CFG with a small finite store.

Store: constant values of locals (ints/bools, unit enum variants) assigned from constants or
copied from tracked locals. Locals whose address is taken mutably are never tracked.
Flags: sticky labels attached to CFG edges by a caller-supplied labelling (outcome of a hook,
consumption of a control signal, ...). Counters: saturating (0,1,2) per event name.
The state space is finite; exploration is a plain worklist search (no solver, no execution).
"""
from collections import deque

from cfg import const_int


class AbsInt:
    def __init__(self, body, cfg, tracer, edge_labels=None, events=None, on_assign=None, max_states=400000,
                 reset_at=(), reset_prefixes=(), reset_counters=(), edge_filter=None, on_call=None, agg_value=None):
        self.body = body
        self.cfg = cfg
        self.tr = tracer
        self.edge_labels = edge_labels or (lambda bb: {})
        self.events = events or (lambda bb: None)
        self.on_assign = on_assign
        self.max_states = max_states
        self.edge_filter = edge_filter
        self.on_call = on_call
        self.agg_value = agg_value
        self.reset_at = set(reset_at)
        self.reset_prefixes = tuple(reset_prefixes)
        self.reset_counters = set(reset_counters)
        self.untracked = set()
        for b in body.blocks:
            for st in b.stmts:
                if st["k"] == "assign":
                    rv = st["rv"]
                    if ("ref" in rv and rv.get("mut")) or "rawptr" in rv:
                        pl = rv.get("ref") or rv.get("rawptr")
                        if not any(e == "*" for e in pl["p"]):
                            self.untracked.add(pl["l"])
        self.states = set()
        self.by_block = {}
        self.edges = 0
        self.exhausted = False
        self._labels_cache = {}

    # ---- values --------------------------------------------------------------------------
    def _eval_operand(self, op, store):
        c = const_int(op)
        if c is not None:
            return ("c", c)
        pl = op.get("copy") or op.get("move")
        if pl is not None and not pl["p"]:
            return store.get(pl["l"])
        return None

    def _eval_rvalue(self, rv, store):
        if "use" in rv:
            return self._eval_operand(rv["use"], store)
        if "cast" in rv and rv["kind"] in ("IntToInt",):
            return self._eval_operand(rv["cast"], store)
        if "agg" in rv and rv["agg"] == "adt" and not rv["ops"]:
            return ("e", rv["adt"], rv["variant"])
        if "unop" in rv and rv["unop"] == "Not":
            v = self._eval_operand(rv["a"], store)
            if v and v[0] == "c" and v[1] in (0, 1):
                return ("c", 1 - v[1])
        return None

    def run(self, extra_init=None):
        init = (0, frozenset(), frozenset(), frozenset(), extra_init)
        dq = deque([init])
        self.states.add(init)
        while dq:
            st = dq.popleft()
            if len(self.states) > self.max_states:
                self.exhausted = True
                break
            for nxt in self.step(st):
                self.edges += 1
                if nxt not in self.states:
                    self.states.add(nxt)
                    dq.append(nxt)
        for s in self.states:
            self.by_block.setdefault(s[0], []).append(s)
        return self

    def step(self, state):
        bb, store_f, flags, counters, extra = state
        blk = self.body.blocks[bb]
        store = dict(store_f)
        if bb in self.reset_at:
            flags = frozenset(x for x in flags if not x.startswith(self.reset_prefixes))
            counters = frozenset((k, v) for k, v in counters if k not in self.reset_counters)
        for i, st in enumerate(blk.stmts):
            k = st["k"]
            if k == "assign":
                pl = st["place"]
                l = pl["l"]
                if pl["p"]:
                    if not any(e == "*" for e in pl["p"]):
                        store.pop(l, None)
                    continue
                v = self._eval_rvalue(st["rv"], store) if l not in self.untracked else None
                if v is None and self.agg_value is not None and "agg" in st["rv"]:
                    v = self.agg_value(bb, st["rv"], store)        # client-defined abstract value of an aggregate (travels with moves)
                if self.on_assign is not None:
                    extra = self.on_assign(bb, i, st, store, flags, counters, extra)
                if v is None:
                    store.pop(l, None)
                else:
                    store[l] = v
            elif k == "dead":
                store.pop(st["l"], None)
        t = blk.term
        ev = self.events(bb)
        if ev is not None:
            c = dict(counters)
            c[ev] = min(2, c.get(ev, 0) + 1)
            counters = frozenset(c.items())
        succs = self.cfg.succ[bb]
        if t["k"] == "call":
            if self.on_call is not None:
                extra = self.on_call(bb, t, store, flags, counters, extra)
            d = t["dest"]
            if not d["p"]:
                store.pop(d["l"], None)
        elif t["k"] == "yield":
            d = t["resume_arg"]
            if not d["p"]:
                store.pop(d["l"], None)
        elif t["k"] == "switch":
            v = self._eval_operand(t["discr"], store)
            if v is not None and v[0] == "c":
                tgt = t["otherwise"]
                for val, b2 in t["arms"]:
                    if int(val) == v[1]:
                        tgt = b2
                succs = [tgt] if tgt in succs else succs
        labels = self._labels_cache.get(bb)
        if labels is None:
            labels = self.edge_labels(bb) or {}
            self._labels_cache[bb] = labels
        sf = frozenset(store.items())
        out = []
        if self.edge_filter is not None:
            drop = self.edge_filter(bb, store)
            if drop:
                succs = [s for s in succs if s not in drop]
        for s in succs:
            fl = flags
            add = labels.get(s)
            if add:
                fl = flags | frozenset(add)
            out.append((s, sf, fl, counters, extra))
        return out

    # ---- queries -------------------------------------------------------------------------
    def store_at_term(self, state):
        """The store after the statements of the state's block (i.e. at its terminator)."""
        bb, store_f = state[0], state[1]
        store = dict(store_f)
        for st in self.body.blocks[bb].stmts:
            k = st["k"]
            if k == "assign":
                pl = st["place"]
                l = pl["l"]
                if pl["p"]:
                    if not any(e == "*" for e in pl["p"]):
                        store.pop(l, None)
                    continue
                v = self._eval_rvalue(st["rv"], store) if l not in self.untracked else None
                if v is None and self.agg_value is not None and "agg" in st["rv"]:
                    v = self.agg_value(bb, st["rv"], store)
                if v is None:
                    store.pop(l, None)
                else:
                    store[l] = v
            elif k == "dead":
                store.pop(st["l"], None)
        return store

    def operand_value_at_term(self, state, op):
        return self._eval_operand(op, self.store_at_term(state))

    def states_at(self, bb):
        return self.by_block.get(bb, [])

    @staticmethod
    def store_of(state):
        return dict(state[1])

    @staticmethod
    def flags_of(state):
        return state[2]

    @staticmethod
    def counters_of(state):
        return dict(state[3])
