"""E7 behavioural skeletons of function families and their comparison across feature sets.

A skeleton is the graph of behaviour-relevant events of all bodies of a family (fn item +
nested closures / coroutines): channel operations, hook calls, spawns, timers, crate-local
calls, constructions of ActorResult / Error / MailboxMessage values, constant assignments to
user variables, awaits, returns, panics. Nodes are keyed by (kind, what, root source
position); edges mean "reachable without passing another event". Events matched by the
additive allow-list (observation-only code a feature may add) are erased before comparison."""
from cfg import callee, is_panic_call, const_int
from rules.common import cfg_of, tracer_of, fn_of
import anchors

INTERESTING_ADTS = ("actor_result::ActorResult", "error::Error", "actor_result::FailurePhase",
                    "dead_letter::DeadLetterReason")
SCAFFOLD_PATHS = (
    "core::future::into_future::IntoFuture::into_future", "core::pin::{impl#", "core::future::get_context", "core::future::future::Future::poll",
    "core::ops::try_trait::Try::branch", "core::ops::try_trait::FromResidual::from_residual", "core::ops::deref::Deref::deref",
    "core::ops::deref::DerefMut::deref_mut", "core::convert::From::from", "core::convert::Into::into", "core::mem::drop",
    "core::intrinsics::", "core::iter::", "core::ops::function::",
)
FORMAT_PREFIXES = ("core::fmt::", "alloc::fmt::", "alloc::string::", "core::any::type_name", "alloc::str::", "alloc::slice::", "alloc::vec::", "core::str::",
                   "alloc::alloc::", "core::ptr::", "core::slice::", "core::array::", "core::cmp::", "core::option::", "core::result::", "core::time::",
                   "core::num::", "core::hint::")


def span_is_logging(f, span_id):
    sp = f.span(span_id)
    return any(m.startswith("tracing::") or m.startswith("tracing_core::") for m in sp.macros)


class Allow:
    """Additive allow-list: callee patterns a feature may add without changing behaviour."""

    def __init__(self, f, strict_local=False):
        self.f = f
        self.strict_local = strict_local    # do not erase crate-local callees (used to audit the erased functions themselves)
        self.erased_local = set()           # crate-local functions erased so far (to be audited)

    def erased_call(self, body, blk):
        fn = fn_of(blk)
        if not fn:
            return None
        p = fn.get("path") or ""
        d = fn.get("def") or ""
        nm = fn.get("name") or ""
        kr = fn.get("krate")
        if span_is_logging(self.f, blk.term["span"]):
            return "logging macro"
        if kr in ("tracing", "tracing_core") or p.startswith("tracing"):
            return "tracing"
        if any(p.startswith(x) for x in SCAFFOLD_PATHS):
            return "scaffold"
        if any(p.startswith(x) for x in FORMAT_PREFIXES):
            return "formatting / pure std"
        if p.startswith("std::time::{impl") or d.startswith("std::time::Instant") or d.startswith("std::time::SystemTime"):
            return "clock read (observation)"
        local = kr == self.f.crate
        rd = (fn.get("resolved") or {}).get("def") or d
        if local and (d.startswith("metrics::") or d in anchors.metrics_accessors(self.f) or rd.startswith("<metrics::") or "metrics::" in rd):
            self.erased_local.add(rd)
            return None if self.strict_local and rd != body.defn else "metrics (observation)"
        if d in ("actor_ref::ActorRef::<T>::identity", "actor_ref::ActorWeak::<T>::identity", "Identity::name", "Identity::new"):
            self.erased_local.add(d)
            return "pure getter"
        if d in anchors.bookkeeping_fns(self.f) or rd in anchors.bookkeeping_fns(self.f):      # rd: a method of a private extension trait on the map
            self.erased_local.add(rd if rd in anchors.bookkeeping_fns(self.f) else d)
            return None if self.strict_local else "wait-for bookkeeping"
        if nm in ("try_with", "scope") and "LocalKey" in d:
            return "task-local scope"
        if self.strict_local and (d.startswith("std::sync::atomic::Atomic") or p.startswith("core::sync::atomic")):
            return "atomic counter update (observation)"
        if d.startswith("std::collections::HashMap") or (d.startswith("std::sync::Mutex") and nm == "lock") or d.startswith("std::sync::OnceLock") and nm in ("get_or_init",):
            return "wait-for bookkeeping"
        if d.startswith("std::sync::Arc") and nm in ("new", "clone"):
            return "Arc (metrics handle)"
        if p == "core::clone::Clone::clone":
            ta = [self.f.ty(t) for t in fn.get("targs", [])]
            if ta and ta[0].is_adt("std::sync::Arc"):
                return "Arc clone (metrics handle)"
            if ta and ta[0].is_adt("actor_ref::ActorRef") and self._only_feeds_metrics(body, blk):
                return "ActorRef clone feeding only the metrics guard"
            if ta and (ta[0].k in ("uint", "int", "bool") or ta[0].is_adt("Identity")):
                return "copy"
        if d.startswith("std::sync::atomic::Atomic") and body.defn == anchors.record_def(self.f):
            return "dead-letter counter (test-utils)"
        return None

    def _only_feeds_metrics(self, body, blk):
        held = {blk.term["dest"]["l"]}      # locals holding the clone (moved from temp to temp)
        uses = []
        grew = True
        while grew:
            grew = False
            uses = []
            for b2 in body.blocks:
                for st in b2.stmts:
                    if st["k"] == "assign":
                        rv = st["rv"]
                        for key in ("ref", "rawptr"):
                            if key in rv and rv[key]["l"] in held:
                                uses.append(("ref", st["place"]["l"]))
                        if "use" in rv:
                            pl = rv["use"].get("move") or rv["use"].get("copy")
                            if pl and pl["l"] in held:
                                if not pl["p"] and not st["place"]["p"]:
                                    if st["place"]["l"] not in held:
                                        held.add(st["place"]["l"])
                                        grew = True
                                else:
                                    uses.append(("use", st["place"]["l"]))
                t = b2.term
                if t["k"] == "call":
                    for a in t["args"]:
                        pl = a.get("move") or a.get("copy")
                        if pl and pl["l"] in held and not pl["p"]:
                            uses.append(("arg", callee(t)))
        # every reference to it goes to a metrics accessor
        refs = [u[1] for u in uses if u[0] == "ref"]
        if any(u[0] in ("use", "arg") for u in uses):
            return False
        # the references themselves may be reborrowed (`&*r`) or moved between temporaries: same reference
        alias = set(refs)
        grew = True
        while grew:
            grew = False
            for b2 in body.blocks:
                for st in b2.stmts:
                    if st["k"] != "assign" or st["place"]["p"]:
                        continue
                    rv = st["rv"]
                    src = None
                    if "ref" in rv and rv["ref"]["p"] == ["*"]:
                        src = rv["ref"]["l"]
                    elif "use" in rv:
                        pl = rv["use"].get("move") or rv["use"].get("copy")
                        if pl and not pl["p"]:
                            src = pl["l"]
                    if src in alias and st["place"]["l"] not in alias:
                        alias.add(st["place"]["l"])
                        grew = True
        def places(x):
            if isinstance(x, dict):
                if "l" in x and "p" in x and isinstance(x["p"], list):
                    yield x
                for v in x.values():
                    yield from places(v)
            elif isinstance(x, list):
                for v in x:
                    yield from places(v)
        for b2 in body.blocks:      # any other read through one of the references (a field, a deref copy) is a use we do not follow
            for st in b2.stmts:
                if st["k"] == "assign":
                    for pl in places(st["rv"]):
                        if pl["l"] in alias and pl["p"] not in ([], ["*"]):
                            return False
                    if st["place"]["p"] and any(pl["l"] in alias for pl in places(st["rv"])):
                        return False
        fed = []
        for b2 in body.blocks:
            t = b2.term
            if t["k"] == "call":
                for a in t["args"]:
                    pl = a.get("move") or a.get("copy")
                    if pl and pl["l"] in alias:
                        fed.append(fn_of(b2).get("def"))
        return bool(refs) and bool(fed) and all(x in anchors.metrics_accessors(self.f) for x in fed)


def events_of(f, body, allow):
    """bb -> list of event keys (in order) for a body; erased events are omitted."""
    cfg = cfg_of(body)
    ev = {}
    for blk in body.blocks:
        if blk.idx not in cfg.live or blk.cleanup:
            continue
        lst = []
        for st in blk.stmts:
            if st["k"] != "assign":
                continue
            rv = st["rv"]
            loc = f.span(st["span"]).loc
            if span_is_logging(f, st["span"]):
                continue
            nmz = anchors.names(f)
            if "agg" in rv and rv["agg"] == "adt" and (rv["adt"] in INTERESTING_ADTS or rv["adt"] in (nmz.mailbox, nmz.control)):
                role = "mailbox-message" if rv["adt"] == nmz.mailbox else "control-signal" if rv["adt"] == nmz.control else rv["adt"]
                lst.append(("build", "%s::%s" % (role, rv["variant"]), loc))
            pl = st["place"]
            if not pl["p"] and body.locals[pl["l"]].get("user") and body.locals[pl["l"]].get("name") and "use" in rv:
                c = const_int(rv["use"])
                tyk = f.ty(body.locals[pl["l"]]["ty"]).k
                if c is not None and tyk == "bool":
                    lst.append(("set", "%s=%d" % (body.locals[pl["l"]]["name"], c), loc))
        t = blk.term
        k = t["k"]
        loc = f.span(t["span"]).loc
        if k == "call":
            why = allow.erased_call(body, blk)
            if why is None:
                if is_panic_call(t):
                    lst.append(("panic", callee(t), loc))
                else:
                    fn = fn_of(blk)
                    name = fn.get("def") or "<indirect>"
                    ta = ",".join(f.ty(x).s for x in fn.get("targs", [])[:2] if "closure" not in f.ty(x).s and "__tokio_select_util" not in f.ty(x).s) if fn else ""
                    lst.append(("call", "%s<%s>" % (name, ta), loc))
        elif k == "return":
            lst.append(("return", "", ""))
        elif k == "yield":
            pass    # a suspension is always preceded by the call that created the awaited future (a call event)
        elif k == "assert":
            pass
        if lst:
            ev[blk.idx] = lst
    return ev


def skeleton(f, root_def, allow):
    """(nodes, edges) over all bodies of the family."""
    nodes = set()
    edges = set()
    for body in f.family(root_def):
        cfg = cfg_of(body)
        ev = events_of(f, body, allow)
        if all(e[0] == "return" for lst in ev.values() for e in lst):
            continue    # pure wrapper body (e.g. the closure / async block #[tracing::instrument] adds)
        for bb, lst in ev.items():
            for e in lst:
                nodes.add(e)
            for a, b in zip(lst, lst[1:]):
                edges.add((a, b))
        # between blocks: from the last event of bb to the first event of the next event blocks
        for bb, lst in ev.items():
            last = lst[-1]
            seen = set()
            stack = list(cfg.succ[bb])
            while stack:
                x = stack.pop()
                if x in seen:
                    continue
                seen.add(x)
                if x in ev:
                    edges.add((last, ev[x][0]))
                    continue
                stack.extend(cfg.succ[x])
        # entry edges
        seen = set()
        stack = [0]
        while stack:
            x = stack.pop()
            if x in seen:
                continue
            seen.add(x)
            if x in ev:
                edges.add((("entry", "", ""), ev[x][0]))
                continue
            stack.extend(cfg.succ[x])
    return nodes, edges


def body_kind(body):
    return "coroutine" if body.is_coroutine else body.def_kind


def roots(f):
    return sorted(d for d, fn in f.fns.items() if fn.get("has_body"))
