"""C15 - deadlock detection is sound and leaves no residue."""
import deadlock
import sendpaths
from rules import c14, sendrules as sr
from rules.common import cfg_of, tracer_of, live_calls, fn_of, loc_of, all_calls
from prov import strip_wrappers, strip_refs, show
from cfg import callee, is_panic_call

LEVEL = "other"
REQUIRE_FEATURES = ["deadlock-detection"]
QUICK_CONFIGS = [("deadlock-detection",), ("tracing", "deadlock-detection"), ("tracing", "metrics", "test-utils", "deadlock-detection")]
TRUSTED = ["T3", "T7", "T8", "T9"]
NOT_DECIDED = ["that a reported cycle 'really is' a chain of unanswered asks also depends on the functional correctness of has_path (see C14)"]
EXPLANATION = (
    "Residue-freedom and soundness are decided structurally: the edge insert and the construction of WaitForGuard(key) are "
    "control-equivalent and use the same key; callers without a task-local identity perform neither (insert dominated by the Some/Ok "
    "outcome of try_with); in the coroutine that contains the insert every suspension point reachable after it stores a value whose type "
    "contains WaitForGuard (compiler's coroutine layout), so completion, timeout, cancellation and unwinding all run its destructor; the "
    "destructor locks the same static and removes self.0; insert and remove on the wait-for map have one site each; the deliberate panic "
    "is reachable only through the true outcome of (self-ask or has_path) evaluated under the lock. Rule O15.5 (an edge must not outlive "
    "its request: the reply's oneshot send must be preceded by retirement of the asker's edge) FAILS on the unchanged tree - genuine "
    "defect F1, reproduced (/verif/findings/C15_stale_edge.rs), recorded in known_findings.json and reported as KNOWN-FINDING.")


def run(run):
    for cfgname, f in run.for_configs():
        det = deadlock.get(f)
        if det.errors or det.body is None:
            for e in det.errors:
                run.fail("O15.0", "detection-anchor", e)
            continue
        run.count_body(det.body)
        edge_iff_guard(run, f, det)
        guard_lives_across_awaits(run, f, det)
        destructor(run, f, det)
        panic_condition(run, f, det)
        # "only if there really is a chain": the cycle walk answers true only when it found the asker (C14's walk rules:
        # direction, advance, verdicts)
        c14.direction(run, f, det)
        edge_outlives_request(run, f)
        # "asks that timed out / were cancelled never contribute": the guard lives in the ask future, so no wrapper may let
        # that future outlive its own call (handed to a spawned task, stored): the timeout wrappers await timeout(d, ask) in
        # place (C10 rule O10.1) and nothing but the lifecycle / the blocking helpers is spawned (C02 rule O2.3)
        from rules import c10
        c10.wrapper_shape(run, f, sendpaths.get(f))
        sr.no_async_detour(run, f, sendpaths.get(f))
        # residue through poisoning: WaitForGuard::drop skips the removal when the lock is poisoned,
        # so "no residue" needs the lock to be unpoisonable: no panic while the guard is live
        from rules import c12
        c12.lock_discipline(run, f)


def edge_iff_guard(run, f, det):
    b, cfg, tr = det.body, det.cfg, det.tr
    if not run.require(len(det.inserts) == 1 and len(det.wfg) == 1, "O15.1", "insert-and-guard-sites", "inserts: %d, WaitForGuard constructions: %d" % (len(det.inserts), len(det.wfg)), "one insert, one WaitForGuard construction"):
        return
    ins = det.inserts[0]
    gbb, gi, gst = det.wfg[0]
    run.require(ins == gbb or cfg.control_equivalent(ins, gbb), "O15.1", "edge-iff-guard", "an edge can be inserted without a guard being created for it (or vice versa): the two are not control-equivalent",
                "insert and WaitForGuard construction are control-equivalent", loc=det.loc(gbb))
    key = strip_wrappers(tr.norm(tr.call_args(ins)[1]))
    gk = strip_wrappers(tr.norm(tr.operand(gst["rv"]["ops"][0])))
    run.require(key == gk, "O15.1", "guard-key-is-inserted-key", "the guard would remove key %s but the inserted key is %s" % (show(gk), show(key)), "WaitForGuard(k) with k the inserted key", loc=det.loc(gbb))
    arm = c14._tracked_arm(det)
    if det.is_helper and arm is not None and arm != det.host_call:
        dom_ok = det.host_cfg.dominates(arm, det.host_call)
    elif det.is_helper:
        dom_ok = arm is not None
    else:
        dom_ok = arm is not None and cfg.dominates(arm, ins)
    run.require(dom_ok, "O15.1", "untracked-callers-skip", "the insert is not dominated by 'a task-local actor identity exists': non-actor callers would be tracked",
                "insert only when CURRENT_ACTOR.try_with succeeded", loc=det.loc(ins))
    # the guard value reaches the long-lived local
    E = tr.norm(tr.rvalue(gst["rv"]))
    hb, htr = b, tr
    if det.is_helper:
        from sendpaths import subterms as _st
        ret = tr.norm(tr.local(0))
        run.require(any(x == E for x in _st(ret)), "O15.1", "helper-returns-guard", "the helper %s does not return the WaitForGuard it creates" % b.defn, "the helper returns the guard")
        hb, htr = det.host, det.host_tr
        E = ("call", det.host_call, b.defn)
    holders = []
    for l, ds in htr.defs.items():
        t = htr.norm(htr.local(l))
        ty = f.ty(hb.locals[l]["ty"])
        b = hb
        if b.locals[l].get("name") and any(x.k == "adt" and x.defn == __import__("anchors").names(f).guard for x in ty.walk()):
            from sendpaths import subterms
            if any(x == E for x in subterms(t)):
                holders.append(l)
    run.require(len(holders) >= 1, "O15.1", "guard-bound-to-local", "the constructed WaitForGuard is not bound to a named local (a temporary would be dropped at once)", "guard bound to local(s) %s" % [b.local_name(h) for h in holders])


def guard_lives_across_awaits(run, f, det):
    b, cfg = det.body, det.cfg
    if det.is_helper and det.inserts:
        b, cfg = det.host, det.host_cfg     # the guard is owned by the host coroutine after the helper call
    if not det.inserts or not b.layout:
        run.fail("O15.2", "layout", "no coroutine layout for the body containing the insert")
        return
    ins = det.host_call if det.is_helper else det.inserts[0]
    cfgc = cfg_of(b)
    after = cfgc.reachable_from(cfgc.succ[ins])
    ys = [blk for blk in b.blocks if blk.term["k"] == "yield" and blk.idx in after]
    if not run.require(len(ys) >= 2, "O15.2", "suspension-points-after-insert", "only %d suspension points after the insert (expected the send await and the reply await)" % len(ys), "%d suspension points after the insert" % len(ys)):
        return
    for y in ys:
        vs = b.layout_variants_at(y.term)
        held = False
        names = []
        if len(vs) == 1:
            for i in vs[0]["fields"]:
                s = b.layout["saved"][i]
                names.append(s["name"])
                if any(x.k == "adt" and x.defn == __import__("anchors").names(f).guard for x in f.ty(s["ty"]).walk()):
                    held = True
        run.require(held, "O15.2", "guard-stored-at-suspension:%s" % _await_key(b, y),
                    "while the ask is suspended at %s the future does not own the WaitForGuard (saved: %s): the edge would be removed too early or never" % (loc_of(b, y), names),
                    "WaitForGuard stored across this suspension point", loc=loc_of(b, y))
    run.sample({"rule": "O15.2", "config": run.cur_config, "suspension_points": [loc_of(b, y) for y in ys]})


def _await_key(b, y):
    """Stable key of a suspension point: what is being awaited."""
    tr = tracer_of(b)
    for blk in live_calls(b):
        if blk.term["span"] == y.term["span"] and (fn_of(blk).get("path") == sendpaths.POLL):
            fut = strip_wrappers(tr.norm(tr.awaited_future(blk.idx)))
            if fut[0] == "call":
                inner = fut
                g = 0
                while inner[0] == "call" and fn_of(b.blocks[inner[1]]).get("path") == sendpaths.INTO_FUTURE and g < 3:
                    inner = strip_wrappers(tr.norm(tr.call_args(inner[1])[0]))
                    g += 1
                return (inner[2] if inner[0] == "call" else show(inner)).split("::")[-1]
            return show(fut)[:40]
    return "await"


def destructor(run, f, det):
    d = __import__("anchors").guard_drop_def(f)
    body = f.body(d)
    if not run.require(body is not None, "O15.3", "drop-impl", "WaitForGuard has no Drop impl", "found"):
        return
    run.count_body(body)
    tr = tracer_of(body)
    cfg = cfg_of(body)
    rem = [k for k in live_calls(body) if deadlock.is_map_method(f, k, "remove")]
    okr = len(rem) == 1
    if okr:
        key = strip_refs(tr.norm(tr.call_args(rem[0].idx)[1]))
        okr = key == ("field", 0, ("param", 1)) or key == ("field", 0, ("deref", ("param", 1)))
    run.require(okr, "O15.3", "drop-removes-own-key", "WaitForGuard::drop does not call remove(&self.0) exactly once", "remove(&self.0)", loc=loc_of(body, rem[0]) if rem else None)
    # the removal may be skipped only when the lock could not be taken (poisoned): every other path
    # from entry to return passes the remove call
    if rem:
        sp = sendpaths.get(f)
        err_arms = set()
        for blk in body.blocks:
            if blk.term["k"] == "switch" and blk.idx in cfg.live:
                for kind, subj, arm, sbb in sp.guards(body, blk.idx):
                    pass
        for blk in body.blocks:
            if blk.term["k"] != "switch" or blk.idx not in cfg.live:
                continue
            op = blk.term["discr"]
            pl = op.get("copy") or op.get("move")
            if pl is None or pl["p"]:
                continue
            ds = tr.defs.get(pl["l"], [])
            if len(ds) == 1 and ds[0][0] == "assign" and "discr" in ds[0][3]:
                subj = strip_wrappers(tr.norm(tr.place(ds[0][3]["discr"])))
                if subj[0] == "call" and fn_of(body.blocks[subj[1]]).get("name") == "lock":
                    arms = {int(v): t for v, t in blk.term["arms"]}
                    err_arms.add(arms.get(1, blk.term["otherwise"]))
        rets = set(cfg.exits(("return",)))
        bypass = cfg.reachable_from(0, avoid={rem[0].idx} | err_arms) & rets
        run.require(not bypass, "O15.3", "drop-always-removes", "WaitForGuard::drop can return without removing its edge although the graph lock was available (the edge would stay in the graph forever)",
                    "every path of drop either removes self.0 or found the lock poisoned", loc=loc_of(body, rem[0]))
    locks = [k for k in live_calls(body) if fn_of(k).get("name") == "lock" and "Mutex" in (fn_of(k).get("def") or "")]
    okl = len(locks) == 1
    if okl:
        src = strip_wrappers(tr.norm(tr.call_args(locks[0].idx)[0]))
        okl = src[0] == "call" and src[2] == det.graph_fn
    run.require(okl, "O15.3", "drop-locks-same-graph", "WaitForGuard::drop does not lock wait_for_graph()", "locks wait_for_graph()")
    # the same static in ask
    dl = [k for k in live_calls(det.body) if fn_of(k).get("name") == "lock" and "Mutex" in (fn_of(k).get("def") or "")]
    oka = len(dl) == 1 and strip_wrappers(det.tr.norm(det.tr.call_args(dl[0].idx)[0]))[:3:2] == ("call", det.graph_fn)
    run.require(oka, "O15.3", "ask-locks-same-graph", "ask does not lock wait_for_graph()", "ask locks wait_for_graph()")
    # one insert / one remove in the crate
    ins = [(b.name, loc_of(b, k)) for b, k in all_calls(f) if deadlock.is_map_method(f, k, "insert")]
    rms = [(b.name, loc_of(b, k)) for b, k in all_calls(f) if deadlock.is_map_method(f, k, "remove")]
    oth = [(b.name, fn_of(k).get("name")) for b, k in all_calls(f) if any(deadlock.is_map_method(f, k, m) for m in ("clear", "retain", "drain", "entry", "extend", "get_mut"))]
    run.require(len(ins) == 1 and len(rms) == 1 and not oth, "O15.3", "map-writers", "wait-for map writers: insert %s, remove %s, other %s" % (ins, rms, oth), "one insert site (ask), one remove site (WaitForGuard::drop)")


def panic_condition(run, f, det):
    b, cfg, tr = det.body, det.cfg, det.tr
    dp = [p for p in det.panics if not any(m.startswith("tracing::") for m in f.span(b.blocks[p].term["span"]).macros)]
    # the deliberate panic: reachable from the tracked arm
    arm = c14._tracked_arm(det)
    if det.is_helper and arm is not None:
        arm = 0     # inside the helper every path starts at its entry
    if not run.require(arm is not None and len(det.has_path) == 1, "O15.4", "anchors", "cannot find the tracked arm / has_path call", "found"):
        return
    hp = det.has_path[0]
    true_targets = []
    for blk in b.blocks:
        if blk.term["k"] != "switch" or blk.idx not in cfg.live:
            continue
        s = strip_wrappers(tr.norm(tr.operand_at(blk.idx, blk.term["discr"])))
        is_cond = (s[0] == "call" and s[1] == hp) or (s[0] == "binop" and s[1] == "Eq" and blk.idx in det.region | {det.acquire})
        if is_cond:
            t = blk.term
            tt = [tgt for v, tgt in t["arms"] if int(v) != 0] or [t["otherwise"]]
            if all(int(v) == 0 for v, _ in t["arms"]):
                tt = [t["otherwise"]]
            true_targets += tt
    reach_wo = cfg.reachable_from(arm, avoid=set(true_targets))
    explicit = [p for p in dp if p in cfg.reachable_from(arm)]
    # unwrap of the lock result is a separate (poison) panic inside the callee, not a panic_fmt site here
    bad = [det.loc(p) for p in explicit if p in reach_wo]
    run.require(explicit and not bad, "O15.4", "panic-only-on-detected-cycle", "the deadlock panic is reachable without (self-ask or has_path) being true: %s" % bad,
                "the panic is reachable only through the true outcome of caller==callee or has_path(..)", loc=det.loc(explicit[0]) if explicit else None)


def edge_outlives_request(run, f):
    """O15.5: the reply becomes observable at the oneshot send in handle_message; the asker's
    edge must be retired before that (or the cycle test must discount answered edges)."""
    sends = [(b, blk) for b, blk in all_calls(f) if fn_of(blk).get("name") == "send" and "oneshot" in (fn_of(blk).get("def") or "")]
    if not run.require(len(sends) == 1, "O15.5", "reply-send-site", "expected one oneshot reply send, found %d" % len(sends), "one reply send site"):
        return
    b, blk = sends[0]
    cfg = cfg_of(b)
    retire = []
    for k in live_calls(b):
        d = (fn_of(k).get("resolved") or {}).get("def") or fn_of(k).get("def") or ""
        if deadlock.is_map_method(f, k, "remove") or _reaches_remove(f, d, 3):
            retire.append(k.idx)
    ok_ = any(cfg.dominates(r, blk.idx) for r in retire)
    root = (b.root or b.defn)
    run.require(ok_, "O15.5", "reply-send-without-edge-retirement:%s" % root,
                "the reply is published (oneshot send) while the asker's wait-for edge is still in the graph; it is removed only when the asker is next polled, so the replier's next handler can see a stale edge and panic on an acyclic program",
                "the asker's edge is retired before the reply is published", loc=loc_of(b, blk))


def _reaches_remove(f, d, depth, seen=None):
    seen = seen if seen is not None else set()
    if depth < 0 or d in seen:
        return False
    seen.add(d)
    cb = f.body(d)
    if cb is None:
        return False
    for k in live_calls(cb):
        if deadlock.is_map_method(f, k, "remove"):
            return True
        d2 = (fn_of(k).get("resolved") or {}).get("def") or fn_of(k).get("def") or ""
        if fn_of(k).get("krate") == f.crate and _reaches_remove(f, d2, depth - 1, seen):
            return True
    return False
