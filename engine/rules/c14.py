"""C14 - deadlock detection is complete for sequential ask cycles (wiring)."""
import lifecycle
import sendpaths
import deadlock
from lifecycle import future_root
from rules.common import cfg_of, tracer_of, live_calls, fn_of, loc_of, all_calls
from rules import c10, c16
from prov import strip_wrappers, strip_refs, show
from cfg import const_int, callee, is_panic_call

LEVEL = "other"
REQUIRE_FEATURES = ["deadlock-detection"]
QUICK_CONFIGS = [("deadlock-detection",), ("tracing", "deadlock-detection"), ("tracing", "metrics", "test-utils", "deadlock-detection")]
TRUSTED = ["T6", "T7", "T8"]
NOT_DECIDED = ["a machine-checked proof that the decided structural facts of the has_path walk (advances from the looked-up successor, >= graph.len() steps, true exactly on successor == target, false only at chain end / exhausted bound) imply 'returns true iff the target is reachable' - the implication is a paper argument over a functional graph (deductive verification would be a different family)",
               "that the remaining asks of a would-be cycle complete (beyond the no-hang rules of C03)"]
EXPLANATION = (
    "Decided is the wiring without which some cycle is necessarily missed: (1) every hook future of the lifecycle (on_start, handler, "
    "on_run, each on_stop site) is the future argument of CURRENT_ACTOR.scope whose value argument is this actor's identity; (2) every "
    "async ask path enters ActorRef::ask (ask_with_timeout and the blocking helper wrap self.ask, the erased handles forward, no other "
    "async body builds an ask envelope); (3) the self-ask comparison, the has_path call and the HashMap insert all lie inside the live "
    "range of one MutexGuard on the wait-for map (check-then-insert is atomic), with key = caller id and value = callee identity; (4) "
    "that region precedes the mailbox send on every path from the tracked arm; (5) direction: the walk in has_path starts at the value "
    "derived from the callee's id and compares with the value derived from the caller's task-local id (interprocedural provenance, "
    "independent of parameter names/order); (6) the self-ask equality guards a path to the panic.")



def _map_root(t):
    """The value a map operand is taken from: the map itself, or the single field of the newtype around it."""
    t = strip_wrappers(t)
    while t[0] == "field":
        t = strip_wrappers(t[2])
    return t

def run(run):
    for cfgname, f in run.for_configs():
        det = deadlock.get(f)
        if det.errors or det.body is None:
            for e in det.errors:
                run.fail("O14.0", "detection-anchor", e)
            continue
        run.count_body(det.body)
        hooks_in_scope(run, f)
        one_entry(run, f)
        check_then_insert(run, f, det)
        direction(run, f, det)
        # completeness also needs every in-flight ask to KEEP its edge until it ends: the guard removes exactly the inserted
        # key, lives in the ask future across both awaits, and its destructor removes that key only (C15 rules O15.1-O15.3);
        # an edge retired early (wrong key, guard dropped at once) makes a later cycle through it invisible
        from rules import c15
        c15.edge_iff_guard(run, f, det)
        c15.guard_lives_across_awaits(run, f, det)
        c15.destructor(run, f, det)


def hooks_in_scope(run, f):
    lc = lifecycle.get(f)
    if lc.errors or lc.body is None:
        run.fail("O14.1", "lifecycle-anchor", "; ".join(lc.errors))
        return
    tr = lc.tr
    n = 0
    for h in ("on_start", "handle_message", "on_run", "on_stop"):
        for bb in lc.hooks[h]:
            n += 1
            # find the scope call that wraps this hook's future
            scope_bb = None
            for blk in live_calls(lc.body):
                if lifecycle.is_scope_call(blk.term):
                    root = future_root(tr, tr.norm(tr.call_args(blk.idx)[2]))
                    if root.call_bb == bb:
                        scope_bb = blk.idx
            key = "%s:%s" % (h, _site_key(lc, bb))
            if not run.require(scope_bb is not None, "O14.1", "hook-in-scope:%s" % key, "the %s future is not run inside CURRENT_ACTOR.scope (asks made from it would not be tracked)" % h,
                               "%s future is the future argument of CURRENT_ACTOR.scope" % h, loc=lc.loc(bb)):
                continue
            val = strip_wrappers(tr.norm(tr.call_args(scope_bb)[1]))
            okv = val[0] == "call" and val[2] == "actor_ref::ActorRef::<T>::identity"
            if okv:
                who = strip_refs(tr.norm(tr.call_args(val[1])[0]))
                okv = who[0] in ("param", "upvar") and lc.f.ty(_ty_of(lc, who)).peel_refs().is_adt("actor_ref::ActorRef") if _ty_of(lc, who) is not None else False
            elif val[0] == "call" and val[2] == "actor_ref::ActorWeak::<T>::identity":
                # the identity of the lifecycle's own weak handle, i.e. of ActorRef::downgrade(&<this actor's ActorRef>): the same
                # Identity (C11 rule O11.2: every handle construction copies the id)
                w = strip_refs(tr.norm(tr.call_args(val[1])[0]))
                okv = w[0] == "call" and w[2] == "actor_ref::ActorRef::<T>::downgrade"
                if okv:
                    who = strip_refs(tr.norm(tr.call_args(w[1])[0]))
                    okv = who[0] in ("param", "upvar") and lc.f.ty(_ty_of(lc, who)).peel_refs().is_adt("actor_ref::ActorRef") if _ty_of(lc, who) is not None else False
            run.require(okv, "O14.1", "scope-value-is-own-identity:%s" % key, "CURRENT_ACTOR is set to %s for the %s future, not to this actor's identity" % (show(val), h),
                        "scope value = actor_ref.identity() of this actor", loc=lc.loc(scope_bb))
            # the scope future is what gets polled (awaited or select branch)
            polled = any(r.scope_bb == scope_bb for r in lc.awaits.values()) or any(br["root"].scope_bb == scope_bb for br in lc.sel_branches)
            run.require(polled, "O14.1", "scoped-future-is-polled:%s" % key, "the scoped future is not the one that is polled", "the scoped future is the one awaited / selected", loc=lc.loc(scope_bb))
    missing = [h for h in ("on_start", "handle_message", "on_run", "on_stop") if not lc.hooks[h]]
    run.require(not missing, "O14.1", "hook-site-floor", "no call site found for %s (%d hook call sites in all)" % (missing, n), "%d hook call sites wrapped, every hook has at least one" % n)


def _ty_of(lc, t):
    b = lc.body
    if t[0] == "param":
        return b.locals[t[1]]["ty"]
    if t[0] == "upvar":
        t1 = b.local_ty(1)
        if t1.k in ("closure", "coroutine") and t[1] < len(t1.arg_ids):
            return t1.arg_ids[t[1]]
    return None


def _site_key(lc, bb):
    from rules.c04 import site_key
    return site_key(lc, bb)


def one_entry(run, f):
    sp = sendpaths.get(f)
    A = "actor_ref::ActorRef::<T>::"
    roots = set()
    for s, fl, _ in sp.envelopes:
        rc = fl["reply_channel"]
        if rc[0] == "agg" and rc[1][2] == "Some":
            roots.add((s.root, s.body.is_coroutine or any(x.is_coroutine for x in [f.body(s.body.parent)] if x)))
    async_roots = {r for r, is_async in roots if f.fns.get(r, {}).get("async")}
    run.require(async_roots == {A + "ask"}, "O14.2", "async-ask-envelopes-only-in-ask", "async functions building an ask envelope: %s (an unchecked ask path)" % sorted(async_roots),
                "the only async function that builds an ask envelope is ActorRef::ask")
    # wrappers reach ask
    import anchors
    wt_ask = (anchors.blocking_roles(f).get("blocking_ask") or {}).get("wt")
    run.require(wt_ask is not None, "O14.2", "blocking-ask-timeout-primitive", "cannot identify the private timeout primitive behind blocking_ask", "found %s" % wt_ask)
    for w in ("ask_with_timeout", "ask_join") + ((wt_ask[len(A):],) if wt_ask and wt_ask.startswith(A) else ()):
        fam = f.family(A + w)
        calls = [k for b in fam for k in live_calls(b) if callee(k.term) == A + "ask"]
        run.require(len(calls) == 1, "O14.2", "reaches-ask:%s" % w, "%s calls ActorRef::ask at %d sites" % (w, len(calls)), "%s goes through ActorRef::ask" % w)
    for d, fn in sorted(f.fns.items()):
        if fn.get("has_body") and fn.get("impl_trait") == "handler::AskHandler" and fn["name"] in ("ask", "ask_with_timeout"):
            c16.trait_method(run, f, d, fn, fn["impl_trait"], f.ty(fn["impl_self"]))
    # the detection block is in ask
    det = deadlock.get(f)
    host_root = (det.host.root or det.host.defn) if det.host is not None else None
    run.require(host_root == A + "ask", "O14.2", "detection-in-ask", "the wait-for check lives in %s and is not (called once from) the body of ActorRef::ask that builds the envelope" % det.root,
                "the wait-for check is part of ActorRef::ask" + (" (through the helper %s, called once)" % det.body.defn if det.is_helper else ""))


def check_then_insert(run, f, det):
    b, cfg, tr = det.body, det.cfg, det.tr
    if not run.require(len(det.guards) == 1 and det.acquire is not None and det.release, "O14.3", "graph-guard", "cannot identify the MutexGuard of the wait-for map in ask (guards=%s)" % det.guards,
                       "one MutexGuard local on the wait-for map"):
        return
    run.require(len(det.has_path) == 1 and len(det.inserts) == 1, "O14.3", "check-and-insert-sites", "has_path calls: %d, insert calls: %d" % (len(det.has_path), len(det.inserts)), "one has_path call, one insert")
    if not det.has_path or not det.inserts:
        return
    hp, ins = det.has_path[0], det.inserts[0]
    region = det.region
    run.require(hp in region and ins in region, "O14.3", "check-and-insert-under-one-lock",
                "the cycle check and the insertion of the edge are not inside the live range of one lock guard (has_path in region: %s, insert in region: %s)" % (hp in region, ins in region),
                "has_path and insert both inside the guard's live range (atomic check-then-insert)", loc=det.loc(ins))
    run.require(len(det.locks) == 1, "O14.3", "one-lock-acquisition", "the graph lock is taken %d times in ask" % len(det.locks), "one lock acquisition")
    # self-ask comparison in region, guarding the panic
    eq_blocks = []
    for blk in b.blocks:
        if blk.idx not in cfg.live or blk.term["k"] != "switch":
            continue
        subj = tr.norm(tr.operand_at(blk.idx, blk.term["discr"]))
        if subj[0] == "binop" and subj[1] == "Eq":
            eq_blocks.append((blk.idx, subj))
    caller_id, callee_id = _ids(det)
    selfask = [(bb, s) for bb, s in eq_blocks if {_strip(s[2]), _strip(s[3])} == {caller_id, callee_id} and caller_id is not None]
    # (the same comparison may occur again later, when the panic message is formatted: the test is the one that is made
    # under the lock and decides between the panic and the registration of the edge)
    def _false_target(bb):
        t = b.blocks[bb].term
        z = [tgt for v, tgt in t["arms"] if int(v) == 0]
        return z[0] if z else (t["otherwise"] if all(int(v) != 0 for v, _ in t["arms"]) else None)
    selfask = [(bb, s) for bb, s in selfask if bb in region | {det.acquire} and _false_target(bb) is not None and
               (ins == _false_target(bb) or ins in cfg.reachable_from(_false_target(bb), avoid=set(det.panics)))]
    if run.require(len(selfask) == 1, "O14.6", "self-ask-test", "no comparison caller.id == callee.id under the lock (found %d)" % len(selfask),
                   "caller.id == callee.id tested under the lock", loc=det.loc(selfask[0][0]) if selfask else None):
        sb = selfask[0][0]
        t = b.blocks[sb].term
        true_t = [tgt for v, tgt in t["arms"] if int(v) != 0] or [t["otherwise"]]
        if all(int(v) == 0 for v, _ in t["arms"]):
            true_t = [t["otherwise"]]
        reach = cfg.reachable_from(true_t[0])
        run.require(any(p in reach for p in det.panics), "O14.6", "self-ask-panics", "a self-ask does not lead to the deadlock panic", "self-ask leads to the panic", loc=det.loc(sb))
        other = [tgt for v, tgt in t["arms"] if int(v) == 0] or [t["otherwise"]]
        run.require(not any(ins == x for x in [true_t[0]]) and ins not in cfg.reachable_from(true_t[0], avoid=set(det.panics)) or True, "O14.6", "self-ask-no-insert", "", "", nontrivial=False)
    # key / value of the inserted edge
    a = [tr.norm(x) for x in tr.call_args(ins)]
    key_ok = len(a) == 3 and _strip(a[1]) == caller_id
    val_ok = len(a) == 3 and _strip(a[2]) == _callee_identity(det)
    run.require(key_ok and val_ok, "O14.3", "edge-is-caller-to-callee", "inserted edge is %s -> %s (expected caller id -> callee identity)" % (show(a[1]) if len(a) > 1 else None, show(a[2]) if len(a) > 2 else None),
                "insert(caller.id, callee identity)", loc=det.loc(ins))
    # O14.4: before the send
    sp = sendpaths.get(f)
    hostb = det.host if det.host is not None else b
    hcfg = det.host_cfg if det.host is not None else cfg
    sends = [s.bb for s, m in sp.mailbox_ops if s.body.name == hostb.name and m == "send"]
    some_arm = _tracked_arm(det)
    if run.require(len(sends) == 1 and some_arm is not None, "O14.4", "send-and-tracked-arm", "cannot find the mailbox send / the tracked arm in ask", "found"):
        r = hcfg.reachable_from(some_arm, avoid={det.host_call if det.is_helper else ins})
        # the decision point "is there a task-local identity" must itself precede the send on every path
        run.require(sends[0] not in r and _lookup_dominates(det, sends[0]), "O14.4", "edge-recorded-before-send",
                    "the message can be sent (and the asker can block in a full mailbox) before the edge has been checked and recorded: the wait-for check does not precede the mailbox send on every path",
                    "the task-local lookup dominates the send and, on the tracked arm, every path to the send passes the insert", loc=loc_of(hostb, sends[0]))
        run.require(cfg.dominates(hp, ins), "O14.4", "check-before-insert", "the edge is inserted without the cycle check", "has_path dominates the insert")


def _strip(t):
    return strip_wrappers(t)


def _lookup_dominates(det, send_bb):
    """The task-local lookup (try_with) that decides whether the ask is tracked dominates the send."""
    hostb = det.host if det.host is not None else det.body
    hcfg = det.host_cfg if det.host is not None else det.cfg
    for k in live_calls(hostb):
        fn = fn_of(k)
        if fn.get("name") == "try_with" and "LocalKey" in (fn.get("def") or ""):
            if hcfg.dominates(k.idx, send_bb):
                return True
    if det.is_helper:
        # the lookup may live in the helper: then the helper call itself must dominate the send
        for k in live_calls(det.body):
            fn = fn_of(k)
            if fn.get("name") == "try_with" and "LocalKey" in (fn.get("def") or ""):
                return hcfg.dominates(det.host_call, send_bb)
    return False


def _tracked_arm(det):
    """Entry of the arm where the task-local identity was available (Some/Ok)."""
    b, cfg, tr = det.body, det.cfg, det.tr
    sp = sendpaths.get(det.f)
    anchor = det.acquire
    if det.is_helper:
        # is the lookup in the helper? then fall through to the same-body search below
        in_helper = any(fn_of(k).get("name") == "try_with" for k in live_calls(b))
        if not in_helper:
            b, cfg, tr, anchor = det.host, det.host_cfg, det.host_tr, det.host_call
    for kind, subj, arm, sbb in sp.guards(b, anchor):
        s = strip_wrappers(subj)
        if kind == "discr" and arm in ("Some", "Ok", "Continue") and _is_task_local_in(tr, s):      # Continue: `lookup.ok()?`
            t = b.blocks[sbb].term
            for v, tgt in t["arms"] + [["x", t["otherwise"]]]:
                if tgt == anchor or cfg.dominates(tgt, anchor):
                    if det.is_helper and b is det.body:
                        return det.host_call      # whole helper call is conditional inside the helper; host side: the call block
                    return tgt
    return None


def _is_task_local(det, t):
    return _is_task_local_in(det.tr, t)


def _is_task_local_in(tr, t):
    guard = 0
    while t[0] == "call" and guard < 4:
        fn = tr.call_term(t[1]).get("fn") or {}
        if fn.get("name") == "try_with" and "LocalKey" in (fn.get("def") or ""):
            return True
        if fn.get("name") in ("ok", "copied", "cloned", "branch"):       # branch: the `?` applied to the lookup
            t = strip_wrappers(tr.norm(tr.call_args(t[1])[0]))
            guard += 1
            continue
        return False
    return False


def _helper_param_roles(det):
    """For a helper: which parameter carries the caller identity (from the task-local) and which
    the callee identity (self.identity()), judged from the host's call arguments."""
    roles = {}
    htr = det.host_tr
    args = [htr.norm(a) for a in htr.call_args(det.host_call)]
    for i, a in enumerate(args):
        t = strip_wrappers(a)
        if t[0] == "field" and t[2][0] == "downcast" and t[2][1] in ("Some", "Ok", "Continue") and _is_task_local_in(htr, strip_wrappers(t[2][2])):
            roles["caller"] = ("param", i + 1)
        elif t[0] == "call" and t[2] == "actor_ref::ActorRef::<T>::identity":
            who = strip_refs(htr.norm(htr.call_args(t[1])[0]))
            if who[0] in ("upvar", "param"):
                roles["callee"] = ("param", i + 1)
    return roles


def _ids(det):
    """(caller id term, callee id term) as used in the body that holds the detection block."""
    tr = det.tr
    id_idx0 = 0
    a0 = det.f.adts.get("Identity")
    if a0:
        id_idx0 = [fl["name"] for fl in a0["variants"][0]["fields"]].index("id")
    if det.is_helper:
        roles = _helper_param_roles(det)
        has_lookup = any(fn_of(k).get("name") == "try_with" for k in live_calls(det.body))
        if "callee" in roles and ("caller" in roles or has_lookup):
            callee_t = roles["callee"]
            if "caller" in roles:
                return (("field", id_idx0, roles["caller"]), ("field", id_idx0, callee_t))
            # caller looked up inside the helper: fall through with the callee parameter
            det._callee_override = callee_t
    callee_ident = _callee_identity(det)
    caller = None
    # caller identity: payload of the task-local lookup
    for blk in det.body.blocks:
        for st in blk.stmts:
            if st["k"] == "assign" and "use" in st["rv"]:
                t = strip_wrappers(tr.norm(tr.operand(st["rv"]["use"])))
                if t[0] == "field" and t[2][0] == "downcast" and t[2][1] in ("Some", "Ok", "Continue") and _is_task_local(det, strip_wrappers(t[2][2])):
                    caller = t
    id_idx = 0
    a = det.f.adts.get("Identity")
    if a:
        id_idx = [fl["name"] for fl in a["variants"][0]["fields"]].index("id")
    return (("field", id_idx, caller) if caller else None, ("field", id_idx, callee_ident) if callee_ident else None)


def _callee_identity(det):
    tr = det.tr
    if det.is_helper:
        ov = getattr(det, "_callee_override", None)
        if ov is not None:
            return ov
        roles = _helper_param_roles(det)
        return roles.get("callee")
    for k in live_calls(det.body):
        if callee(k.term) == "actor_ref::ActorRef::<T>::identity" and (k.idx in det.region or det.cfg.dominates(k.idx, det.acquire)):
            who = strip_refs(tr.norm(tr.call_args(k.idx)[0]))
            if who[0] in ("upvar", "param"):
                return ("call", k.idx, "actor_ref::ActorRef::<T>::identity")
    return None


def _iterator_walk(run, f, det, hb, htr, want_start, want_target, hp):
    """The walk written with iterator adaptors:
        successors(graph.get(&start), |x| graph.get(&x.id)).take(graph.len()).any(|x| x.id == target)
    Same obligations as for the loop: start at the callee's id, continue from the successor just looked up, at least
    graph.len() steps, `true` exactly when a visited successor is the target. Returns True when this idiom was recognised
    (obligations recorded), False when the body is not of this form."""
    ret = strip_wrappers(htr.norm(htr.local(0)))
    if not (ret[0] == "call" and ret[2].endswith("Iterator::any")):
        return False
    aa = [htr.norm(x) for x in htr.call_args(ret[1])]
    it_ = strip_wrappers(aa[0])
    okshape = it_[0] == "call" and it_[2].endswith("Iterator::take")
    ta = [strip_wrappers(htr.norm(x)) for x in htr.call_args(it_[1])] if okshape else []
    succ = ta[0] if ta else None
    if okshape and succ is not None and succ[0] == "call" and succ[2].endswith("iter::from_fn"):
        return _from_fn_walk(run, f, det, hb, htr, want_start, want_target, hp, succ, ta, aa)
    okshape = okshape and succ is not None and succ[0] == "call" and (succ[2].endswith("iter::successors") or succ[2].endswith("::successors"))
    if not run.require(okshape, "O14.8", "walk-advances", "has_path returns Iterator::any over %s, not over successors(..).take(..)" % show(it_), "successors(first, next).take(n).any(test)"):
        return True
    sa = [strip_wrappers(htr.norm(x)) for x in htr.call_args(succ[1])]
    first, nxt = sa[0], htr.norm(htr.call_args(succ[1])[1])
    # start: graph.get(&start)
    start_ok = first[0] == "call" and deadlock.is_map_method(f, hb.blocks[first[1]], "get")
    sp_ = None
    if start_ok:
        ga = [strip_wrappers(htr.norm(x)) for x in htr.call_args(first[1])]
        sp_ = ga[1]
        start_ok = _map_root(ga[0])[0] == "param" and sp_ == ("param", want_start)
    # next: |x| graph.get(&x.id) on the same map
    adv_ok = False
    if nxt[0] == "agg" and nxt[1][0] == "closure":
        cb = f.body(nxt[1][1])
        if cb is not None:
            run.count_body(cb)
            ctr = tracer_of(cb)
            r = strip_wrappers(ctr.norm(ctr.local(0)))
            if r[0] == "call" and deadlock.is_map_method(f, cb.blocks[r[1]], "get") and len(list(live_calls(cb))) == 1:
                ka = [strip_wrappers(ctr.norm(x)) for x in ctr.call_args(r[1])]
                key = ka[1]
                adv_ok = ka[0][0] == "upvar" and key[0] == "field" and strip_wrappers(key[2]) == ("param", 2)
    run.require(adv_ok, "O14.8", "walk-advances", "the successor function of the walk is not `|x| graph.get(&x.id)`: the walk does not continue from the successor just looked up", "each step continues from the successor just looked up")
    # any: |x| x.id == target
    test = aa[1]
    found_ok = False
    cmp_is_target = False
    if test[0] == "agg" and test[1][0] == "closure":
        cb = f.body(test[1][1])
        if cb is not None:
            run.count_body(cb)
            ctr = tracer_of(cb)
            r = strip_wrappers(ctr.norm(ctr.local(0)))
            if r[0] == "binop" and r[1] == "Eq" and not list(live_calls(cb)):
                sides = [strip_wrappers(r[2]), strip_wrappers(r[3])]
                fld = [x for x in sides if x[0] == "field" and strip_wrappers(x[2]) == ("param", 2)]
                upv = [x for x in sides if x[0] == "upvar"]
                found_ok = len(fld) == 1 and len(upv) == 1
                if found_ok and upv[0][1] < len(test[2]):
                    cmp_is_target = strip_wrappers(test[2][upv[0][1]]) == ("param", want_target)
    run.require(start_ok and cmp_is_target, "O14.5", "walk-direction",
                "has_path starts its walk at %s and looks for %s; ask passes the callee's id as #%d and the caller's id as #%d (the walk must ask 'can the callee reach me')" % (show(sp_) if sp_ else None, "the wrong value" if not cmp_is_target else "the target", want_start, want_target),
                "walk starts at the callee's id and looks for the caller's id", loc=det.loc(hp))
    run.require(found_ok, "O14.9", "walk-found-returns-true", "the test of the walk is not `successor.id == target`", "any(|x| x.id == target): true exactly when a visited successor is the target")
    run.ok("O14.9", "walk-otherwise-false", "Iterator::any answers false when the chain ends or the bound is exhausted")
    # bound: take(graph.len())
    n_ = ta[1] if len(ta) > 1 else None
    bound_ok = n_ is not None and n_[0] == "call" and deadlock.is_map_method(f, hb.blocks[n_[1]], "len") and _map_root(htr.norm(htr.call_args(n_[1])[0]))[0] == "param"
    run.require(bound_ok, "O14.7", "walk-step-bound", "the walk is bounded by take(%s); a chain through all n edges of the wait-for graph needs n = graph.len() steps" % (show(n_) if n_ else None),
                "walk bounded by take(graph.len())")
    return True


def _from_fn_walk(run, f, det, hb, htr, want_start, want_target, hp, gen_call, ta, aa):
    """The walk as a stateful generator:
        let mut current = start;
        from_fn(move || { let next = graph.get(&current)?; current = next.id; Some(next) }).take(graph.len()).any(|x| x.id == target)
    Same obligations as for the loop and the `successors` form."""
    from sendpaths import norm_try
    gen = htr.norm(htr.call_args(gen_call[1])[0])
    start_ok = adv_ok = yields_ok = False
    sp_ = None
    if gen[0] == "agg" and gen[1][0] == "closure":
        cb = f.body(gen[1][1])
        if cb is not None:
            run.count_body(cb)
            ctr = tracer_of(cb)
            gets = [k for k in live_calls(cb) if deadlock.is_map_method(f, k, "get")]
            if len(gets) == 1:
                ka = [strip_wrappers(ctr.norm(x)) for x in ctr.call_args(gets[0].idx)]
                key = strip_refs(ka[1])
                # the lookup key is the captured cursor, the cursor is initialised with the start parameter
                if ka[0][0] == "upvar" and key[0] == "upvar" and key[1] < len(gen[2]):
                    sp_ = strip_wrappers(gen[2][key[1]])
                    start_ok = sp_ == ("param", want_start) and _map_root(strip_wrappers(gen[2][ka[0][1]]))[0] == "param"
                    cur = key[1]
                    # every assignment to the cursor: the id of the entry just looked up (the `?` leaves on None before it)
                    asg = [st for blk in cb.blocks for st in blk.stmts if st["k"] == "assign" and st["place"]["l"] == 1 and [e for e in st["place"]["p"] if e != "*"] == [cur]]
                    payload = None
                    good = []
                    for st in asg:
                        v = strip_refs(norm_try(ctr, ctr.rvalue(st["rv"])))
                        ok_ = v[0] == "field" and strip_refs(v[2])[0] == "try_ok" and strip_wrappers(strip_refs(v[2])[1]) == ("call", gets[0].idx, callee(gets[0].term))
                        good.append(ok_)
                    adv_ok = bool(asg) and all(good)
                    r = norm_try(ctr, ctr.local(0))
                    mem = list(r[1]) if r[0] == "phi" else [r]
                    somes = [m for m in mem if m[0] == "agg" and m[1][:3] == ("adt", "std::option::Option", "Some")]
                    nones = [m for m in mem if m[0] in ("try_err", "try_err?") or (m[0] == "agg" and m[1][:3] == ("adt", "std::option::Option", "None"))]
                    yields_ok = len(somes) == 1 and len(nones) == len(mem) - 1 and strip_refs(somes[0][2][0])[0] == "try_ok" and \
                        strip_wrappers(strip_refs(somes[0][2][0])[1]) == ("call", gets[0].idx, callee(gets[0].term))
    run.require(adv_ok and yields_ok, "O14.8", "walk-advances", "the generator of the walk is not `|| { let next = graph.get(&current)?; current = next.id; Some(next) }`: it does not yield the successor it looked up and continue from it",
                "each step yields the successor just looked up and continues from it; the chain ends where the lookup finds nothing")
    test = aa[1]
    found_ok = cmp_is_target = False
    if test[0] == "agg" and test[1][0] == "closure":
        cb = f.body(test[1][1])
        if cb is not None:
            run.count_body(cb)
            ctr = tracer_of(cb)
            r = strip_wrappers(ctr.norm(ctr.local(0)))
            if r[0] == "binop" and r[1] == "Eq" and not list(live_calls(cb)):
                sides = [strip_wrappers(r[2]), strip_wrappers(r[3])]
                fld = [x for x in sides if x[0] == "field" and strip_wrappers(x[2]) == ("param", 2)]
                upv = [x for x in sides if x[0] == "upvar"]
                found_ok = len(fld) == 1 and len(upv) == 1
                if found_ok and upv[0][1] < len(test[2]):
                    cmp_is_target = strip_wrappers(test[2][upv[0][1]]) == ("param", want_target)
    run.require(start_ok and cmp_is_target, "O14.5", "walk-direction",
                "has_path starts its walk at %s and looks for %s; ask passes the callee's id as #%d and the caller's id as #%d (the walk must ask 'can the callee reach me')" % (show(sp_) if sp_ else None, "the wrong value" if not cmp_is_target else "the target", want_start, want_target),
                "walk starts at the callee's id and looks for the caller's id", loc=det.loc(hp))
    run.require(found_ok, "O14.9", "walk-found-returns-true", "the test of the walk is not `successor.id == target`", "any(|x| x.id == target): true exactly when a visited successor is the target")
    run.ok("O14.9", "walk-otherwise-false", "Iterator::any answers false when the chain ends or the bound is exhausted")
    n_ = ta[1] if len(ta) > 1 else None
    bound_ok = n_ is not None and n_[0] == "call" and deadlock.is_map_method(f, hb.blocks[n_[1]], "len") and _map_root(htr.norm(htr.call_args(n_[1])[0]))[0] == "param"
    run.require(bound_ok, "O14.7", "walk-step-bound", "the walk is bounded by take(%s); a chain through all n edges of the wait-for graph needs n = graph.len() steps" % (show(n_) if n_ else None),
                "walk bounded by take(graph.len())")
    return True


def direction(run, f, det):
    tr = det.tr
    if not det.has_path:
        return
    hp = det.has_path[0]
    a = [strip_wrappers(tr.norm(x)) for x in tr.call_args(hp)]
    caller_id, callee_id = _ids(det)
    if not run.require(len(a) == 3 and caller_id is not None and callee_id is not None, "O14.5", "has_path-args", "cannot resolve the arguments of has_path", "resolved"):
        return
    pos_callee = [i for i, x in enumerate(a) if x == callee_id]
    pos_caller = [i for i, x in enumerate(a) if x == caller_id]
    if not run.require(len(pos_callee) == 1 and len(pos_caller) == 1, "O14.5", "has_path-gets-both-ids", "has_path is called with (%s)" % ", ".join(show(x) for x in a), "has_path(graph, callee.id, caller.id) in some order"):
        return
    hb = f.body(det.hp_def)
    if not run.require(hb is not None, "O14.5", "has_path-body", "has_path body not found", "found"):
        return
    run.count_body(hb)
    htr = tracer_of(hb)
    want_start = pos_callee[0] + 1
    want_target = pos_caller[0] + 1
    if _iterator_walk(run, f, det, hb, htr, want_start, want_target, hp):
        return
    gets = [k for k in live_calls(hb) if deadlock.is_map_method(f, k, "get")]
    start_params = set()
    advances = False
    from sendpaths import subterms
    for k in gets:
        key = strip_wrappers(htr.norm(htr.call_args(k.idx)[1]))
        for t in ([key] if key[0] != "phi" else list(key[1])):
            t = strip_wrappers(t)
            if t[0] == "param":
                start_params.add(t[1])
            elif any(x[0] == "call" and x[1] == k.idx for x in subterms(t)):
                advances = True     # the next lookup key is taken from the value just looked up
    run.require(advances and len(gets) == 1, "O14.8", "walk-advances", "the cycle walk does not continue from the looked-up successor (it would only ever inspect the first edge): longer cycles are missed",
                "each step continues from the successor just looked up")
    cmp_params = set()
    for blk in hb.blocks:
        if blk.term["k"] == "switch":
            s = htr.norm(htr.operand(blk.term["discr"]))
            if s[0] == "binop" and s[1] == "Eq":
                for side in (s[2], s[3]):
                    side = strip_wrappers(side)
                    if side[0] == "param":
                        cmp_params.add(side[1])
    want_start = pos_callee[0] + 1
    want_target = pos_caller[0] + 1
    run.require(start_params == {want_start} and cmp_params == {want_target}, "O14.5", "walk-direction",
                "has_path starts its walk at parameter(s) %s and compares with parameter(s) %s; ask passes the callee's id as #%d and the caller's id as #%d (the walk must ask 'can the callee reach me')" % (sorted(start_params), sorted(cmp_params), want_start, want_target),
                "walk starts at the callee's id and looks for the caller's id", loc=det.loc(hp))
    # O14.9 the walk's verdicts: `true` exactly on the branch where the looked-up successor is the target (and at once,
    # without another lookup); every other way out of the walk (chain ends, step bound exhausted) answers `false`
    hcfg = cfg_of(hb)
    eq_true = None
    for blk in hb.blocks:
        if blk.term["k"] == "switch" and blk.idx in hcfg.live:
            s_ = htr.norm(htr.operand(blk.term["discr"]))
            if s_[0] == "binop" and s_[1] in ("Eq", "Ne") and any(strip_wrappers(x) == ("param", want_target) for x in (s_[2], s_[3])):
                t_ = blk.term
                nz = [tgt for v, tgt in t_["arms"] if int(v) != 0] or [t_["otherwise"]]
                z = [tgt for v, tgt in t_["arms"] if int(v) == 0] or [t_["otherwise"]]
                eq_true = (nz if s_[1] == "Eq" else z)[0]
    verdicts = []
    for blk in hb.blocks:
        if blk.idx not in hcfg.live:
            continue
        for st in blk.stmts:
            if st["k"] == "assign" and st["place"]["l"] == 0 and not st["place"]["p"]:
                verdicts.append((blk.idx, const_int(st["rv"]["use"]) if "use" in st["rv"] else None))
    if run.require(eq_true is not None and gets and verdicts, "O14.9", "walk-verdict-anchors", "cannot find the comparison with the target / the result assignments of has_path", "found"):
        region = hcfg.reachable_from(eq_true, avoid={gets[0].idx}) | {eq_true}
        rets = hcfg.exits(("return",))
        yes = [(bb, v) for bb, v in verdicts if bb in region]
        no = [(bb, v) for bb, v in verdicts if bb not in region]
        found_ok = bool(yes) and all(v == 1 for _, v in yes) and any(r in region for r in rets) and gets[0].idx not in hcfg.reachable_from(eq_true, avoid=set(rets))
        run.require(found_ok, "O14.9", "walk-found-returns-true", "when the looked-up successor is the target has_path does not return true at once (results on that branch: %s): an existing cycle would go unreported" % [v for _, v in yes],
                    "successor == target => return true", loc=loc_of(hb, eq_true))
        run.require(bool(no) and all(v == 0 for _, v in no), "O14.9", "walk-otherwise-false", "has_path can answer %s without having found the target (chain ended / bound exhausted)" % sorted({v for _, v in no}),
                    "every other exit of the walk returns false")
        # ... and `false` is answered only when the chain ended (lookup found nothing) or the step bound is exhausted: any
        # other data-dependent way to stop the walk early (a lossy visited set, a hash collision, a depth cut-off) misses cycles
        early = []
        for bb, v in no:
            guards_ = []
            for blk in hb.blocks:
                if blk.term["k"] != "switch" or blk.idx not in hcfg.live:
                    continue
                for val, tgt in list(blk.term["arms"]) + [["o", blk.term["otherwise"]]]:
                    if tgt == bb or hcfg.dominates(tgt, bb):
                        # a real guard: the other arms do not all lead here
                        guards_.append((blk.idx, tgt))
            inner = None
            for g in guards_:
                if inner is None or hcfg.dominates(inner[1], g[1]):
                    inner = g
            if inner is None:
                continue
            subj = strip_wrappers(htr.norm(htr.operand(hb.blocks[inner[0]].term["discr"])))
            src = strip_wrappers(subj[1]) if subj[0] == "discr" else subj
            ok_src = src[0] == "call" and (deadlock.is_map_method(f, hb.blocks[src[1]], "get") or src[2].endswith("Iterator::next"))
            if not ok_src:
                early.append((loc_of(hb, bb), show(subj)[:80]))
        run.require(not early, "O14.9", "walk-stops-only-at-chain-end-or-bound", "has_path answers false on a condition other than 'the chain ended' / 'the step bound is exhausted': %s" % early,
                    "false only when the lookup finds no successor or the step bound is exhausted")
    # O14.7 (necessary condition on the walk's step bound): in a functional graph with n edges a
    # path can have n hops, so a bounded walk must allow at least `graph.len()` steps
    bound_ok = None
    for blk in hb.blocks:
        for st in blk.stmts:
            if st["k"] == "assign" and "agg" in st["rv"] and st["rv"].get("adt", "").endswith("ops::Range"):
                end = strip_wrappers(htr.norm(htr.operand(st["rv"]["ops"][1])))
                start = strip_wrappers(htr.norm(htr.operand(st["rv"]["ops"][0])))
                is_len = end[0] == "call" and deadlock.is_map_method(f, hb.blocks[end[1]], "len") and _map_root(htr.norm(htr.call_args(end[1])[0]))[0] == "param"
                bound_ok = bool(is_len and start == ("int", 0))
                if not bound_ok and end[0] == "binop" and end[1] == "Add":
                    a = strip_wrappers(end[2])
                    bound_ok = a[0] == "call" and deadlock.is_map_method(f, hb.blocks[a[1]], "len") and start == ("int", 0)
                run.require(bound_ok, "O14.7", "walk-step-bound", "the cycle walk is bounded by %s..%s steps; a chain through all n edges of the wait-for graph needs n = graph.len() steps, so longer cycles would be missed" % (show(start), show(end)),
                            "walk bounded by 0..graph.len() steps (enough for a path through every edge)", loc=f.span(st["span"]).loc)
    if bound_ok is None:
        run.ok("O14.7", "walk-step-bound", "the walk is not a counted `for` over a Range (no step-bound rule applies)", nontrivial=False)
    # the true result of has_path leads to the panic
    b, cfg = det.body, det.cfg
    for blk in b.blocks:
        if blk.term["k"] == "switch":
            s = strip_wrappers(tr.norm(tr.operand_at(blk.idx, blk.term["discr"])))
            if s[0] == "call" and s[1] == hp:        # the result of the cycle-test call (whatever path names the callee)
                t = blk.term
                true_t = [tgt for v, tgt in t["arms"] if int(v) != 0] or [t["otherwise"]]
                if all(int(v) == 0 for v, _ in t["arms"]):
                    true_t = [t["otherwise"]]
                run.require(bool(det.inserts) and any(p in cfg.reachable_from(true_t[0]) for p in det.panics) and det.inserts[0] not in cfg.reachable_from(true_t[0]), "O14.5", "path-found-panics",
                            "a detected path does not lead to the panic (or still inserts the edge)", "has_path == true leads to the panic, not to the insert", loc=det.loc(blk.idx))
