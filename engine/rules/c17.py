"""C17 - the blocking API is the async API seen from a thread."""
import sendpaths
import minterp as mi
from minterp import Interp, sym, some, NONE
from sendpaths import norm_try, subterms
from rules import sendrules as sr
from rules import c03, c10, c13
from rules.common import cfg_of, tracer_of, live_calls, fn_of, loc_of, all_calls
from prov import strip_wrappers, strip_refs, show, fn_path
from cfg import callee

LEVEL = "other"
TRUSTED = ["T1", "T3", "T5", "T6", "T8"]
NOT_DECIDED = ["the wall-clock bound of the blocking calls (thread start-up, scheduling) is a runtime quantity; decided is that the helper runs the async operation under tokio's timeout with the caller's Duration (C10 rules) and that the caller waits only for the helper's result"]
EXPLANATION = (
    "Siblings agree: blocking_tell_no_timeout/tell and blocking_ask_no_timeout/ask have the same behavioural descriptor (envelope shape, "
    "one waiting enqueue on self.sender, error variant + failure condition + dead-letter reason on each failing outcome, downcast target, "
    "result provenance) after renaming send().await<->blocking_send and rx.await<->blocking_recv; the envelope, reply-integrity and "
    "dead-letter pairing rules of C01/C03/C13 are evaluated on the blocking bodies as well. Dispatch of blocking_tell/blocking_ask is "
    "decided by decision table (None => no-timeout body, Some(d) => helper with d). The helper closure given to std::thread::spawn builds "
    "a current-thread runtime with the timer enabled and block_on's the timeout wrapper (C10 shape rules and the C10 error mapping: only "
    "the elapsed timer becomes Error::Timeout, other outcomes of the wrapped tell/ask pass through unchanged); the caller returns what "
    "rx.recv() yields, a dead helper maps to Error::Send. Runtime::block_on occurs only inside bodies passed to std::thread::spawn, so "
    "the timeout variants never start a runtime on the caller's (possibly async) thread. The deprecated aliases forward with constant None.")

A = "actor_ref::ActorRef::<T>::"


def run(run):
    for cfgname, f in run.for_configs():
        sp = sendpaths.get(f)
        siblings(run, f, sp)
        dispatch(run, f)
        helper_shape(run, f, sp)
        runtime_only_on_helper_thread(run, f, sp)
        aliases(run, f)
        sr.envelope_constructions(run, f, sp, rule="O17.1")
        c03.per_request_channel(run, f, sp)
        c13.pairing(run, f, sp)
        durations = c10.wrapper_shape(run, f, sp)
        # same error rule as the async API: on the helper thread only the elapsed timer becomes Error::Timeout, every other
        # outcome of the wrapped tell / ask is passed on unchanged (C10 rule O10.2)
        c10.error_mapping(run, f, sp, durations)
        sr.no_async_detour(run, f, sp, rule="O17.3")


def descriptor(f, sp, root):
    env = [(s, fl) for s, fl, _ in sp.envelopes if s.root == root]
    if len(env) != 1:
        return None
    s, fl = env[0]
    rc = fl["reply_channel"]
    d = {"reply": "Some" if rc[0] == "agg" and rc[1][2] == "Some" else "None"}
    ops = sorted(m for s2, m in sp.mailbox_ops if s2.root == root and m in ("send", "blocking_send", "try_send", "send_timeout"))
    d["enqueue"] = ["send" if m in ("send", "blocking_send") else m for m in ops]
    errs = []
    recs = {(r[0].body.name, r[0].bb): r for r in sp.records}
    for es, variant, flds, st in sp.errors:
        if es.root != root:
            continue
        ctx = sp.failure_context(es)
        ck = c13.ctx_kind(ctx)
        cfg = cfg_of(es.body)
        rs = [r for k, r in recs.items() if k[0] == es.body.name and (k[1] == es.bb or cfg.control_equivalent(k[1], es.bb))]
        reason = None
        if len(rs) == 1:
            a = rs[0][2]
            reason = a[1][1][2] if len(a) > 1 and a[1][0] == "agg" else None
        errs.append((variant, ck, reason))
    d["errors"] = sorted(errs, key=str)
    # downcast target
    b = s.body
    tr = tracer_of(b)
    dc = [f.ty(fn_of(k)["targs"][-1]).s for k in live_calls(b) if fn_of(k).get("name") == "downcast" and fn_of(k).get("targs")]
    d["downcast"] = sorted(dc)
    return d


def _role(f, api, which):
    """Short name (after `ActorRef::<T>::`) of the private primitive behind a public blocking function, by role."""
    import anchors
    d = (anchors.blocking_roles(f).get(api) or {}).get(which)
    return d[len(A):] if d and d.startswith(A) else None


def siblings(run, f, sp):
    for a, b in (("tell", _role(f, "blocking_tell", "nt")), ("ask", _role(f, "blocking_ask", "nt"))):
        if not run.require(b is not None, "O17.1", "sibling-anchors:%s" % a, "cannot identify the private no-timeout primitive behind blocking_%s" % a, "found"):
            continue
        da, db = descriptor(f, sp, A + a), descriptor(f, sp, A + b)
        if not run.require(da is not None and db is not None, "O17.1", "sibling-anchors:%s" % a, "cannot find the primitive bodies %s / %s" % (a, b), "found"):
            continue
        diffs = [k for k in da if da[k] != db[k]]
        run.require(not diffs, "O17.1", "siblings-agree:%s" % a, "%s and %s differ in %s: %s vs %s" % (a, b, diffs, {k: da[k] for k in diffs}, {k: db[k] for k in diffs}),
                    "%s == %s up to the blocking primitives: %s" % (b, a, da))
        run.sample({"rule": "O17.1", "config": run.cur_config, "async": a, "blocking": b, "descriptor": da})
        # the blocking primitive uses the blocking channel operations
        ops = [m for s2, m in sp.mailbox_ops if s2.root == A + b and m in ("send", "blocking_send")]
        run.require(ops == ["blocking_send"], "O17.1", "blocking-primitive:%s" % b, "%s enqueues with %s" % (b, ops), "enqueues with blocking_send")


def dispatch(run, f):
    for api in ("blocking_tell", "blocking_ask"):
        nt, wt = _role(f, api, "nt"), _role(f, api, "wt")
        if not run.require(nt is not None and wt is not None, "O17.2", "dispatch-body:%s" % api, "cannot identify the two private primitives (no timeout / timeout) called by %s" % api, "found"):
            continue
        if nt == api:
            _dispatch_inline_nt(run, f, api, wt)
            continue
        # the logic body (with `tracing` the fn is wrapped: look for the body that calls the callees)
        cands = [b for b in f.family(A + api) if any(callee(k.term) in (A + nt, A + wt) for k in live_calls(b))]
        if not run.require(len(cands) == 1, "O17.2", "dispatch-body:%s" % api, "cannot find the dispatching body of %s" % api, "found"):
            continue
        b = cands[0]
        run.count_body(b)
        tr = tracer_of(b)
        sp = sendpaths.get(f)
        ok_all = True
        seen = {}
        for k in live_calls(b):
            c = callee(k.term)
            if c not in (A + nt, A + wt):
                continue
            args = [tr.norm(a) for a in tr.call_args(k.idx)]
            who = sp.resolve_to_root_param(b, args[0])
            msg = sp.resolve_to_root_param(b, args[1])
            good = who[0] == "param" and who[2] == 1 and msg[0] == "param" and msg[2] == 2
            guards = sp.guards(b, k.idx)
            g = [(kind, sp.resolve_to_root_param(b, subj), arm) for kind, subj, arm, _ in guards if kind == "discr"]
            arm = [x[2] for x in g if x[1][0] == "param" and x[1][2] == 3]
            if c == A + wt:
                d = strip_wrappers(args[2]) if len(args) > 2 else None
                # Some payload of the timeout parameter
                okd = d is not None and d[0] == "field" and d[2][0] == "downcast" and d[2][1] == "Some"
                if okd:
                    src = sp.resolve_to_root_param(b, d[2][2])
                    okd = src[0] == "param" and src[2] == 3
                good = good and okd and arm == ["Some"]
            else:
                good = good and arm == ["None"]
            seen[c] = good
            ok_all = ok_all and good
        run.require(ok_all and set(seen) == {A + nt, A + wt}, "O17.2", "dispatch:%s" % api, "%s does not dispatch None => %s(self,msg), Some(d) => %s(self,msg,d): %s" % (api, nt, wt, seen),
                    "None => %s(self, msg); Some(d) => %s(self, msg, d)" % (nt, wt))
        ret = norm_try(tr, tr.local(0))
        members = set(ret[1]) if ret[0] == "phi" else {ret}
        run.require(all(m[0] == "call" and m[2] in (A + nt, A + wt) for m in members) and len(members) == 2, "O17.2", "dispatch-result:%s" % api,
                    "%s does not return the callee's result unchanged: %s" % (api, show(ret)), "returns the callee's result unchanged")


def _dispatch_inline_nt(run, f, api, wt):
    """The no-timeout primitive inlined into the public function: `match timeout { Some(d) => self.wt(msg, d), None => { <enqueue> } }`.
    Same obligations as for the call form: the timeout primitive is called exactly under Some(d) with (self, msg, d), the
    blocking enqueue sits exactly under None."""
    sp = sendpaths.get(f)
    cands = [b for b in f.family(A + api) if any(callee(k.term) == A + wt for k in live_calls(b))]
    if not run.require(len(cands) == 1, "O17.2", "dispatch-body:%s" % api, "cannot find the dispatching body of %s" % api, "found"):
        return
    b = cands[0]
    run.count_body(b)
    tr = tracer_of(b)

    def arm_of(bb):
        g = [(kind, sp.resolve_to_root_param(b, subj), arm) for kind, subj, arm, _ in sp.guards(b, bb) if kind == "discr"]
        return [x[2] for x in g if x[1][0] == "param" and x[1][2] == 3]
    good = True
    n_wt = 0
    for k in live_calls(b):
        if callee(k.term) != A + wt:
            continue
        n_wt += 1
        args = [tr.norm(a) for a in tr.call_args(k.idx)]
        who = sp.resolve_to_root_param(b, args[0])
        msg = sp.resolve_to_root_param(b, args[1])
        d = strip_wrappers(args[2]) if len(args) > 2 else None
        okd = d is not None and d[0] == "field" and d[2][0] == "downcast" and d[2][1] == "Some"
        if okd:
            src = sp.resolve_to_root_param(b, d[2][2])
            okd = src[0] == "param" and src[2] == 3
        good = good and who[0] == "param" and who[2] == 1 and msg[0] == "param" and msg[2] == 2 and okd and arm_of(k.idx) == ["Some"]
    enq = [s2 for s2, m in sp.mailbox_ops if s2.body.name == b.name and m in ("send", "blocking_send", "try_send", "send_timeout")]
    good = good and n_wt == 1 and len(enq) == 1 and arm_of(enq[0].bb) == ["None"]
    run.require(good, "O17.2", "dispatch:%s" % api, "%s does not dispatch None => <blocking enqueue in place>, Some(d) => %s(self,msg,d)" % (api, wt),
                "None => blocking enqueue in place; Some(d) => %s(self, msg, d)" % wt)
    ret = norm_try(tr, tr.local(0))
    members = set(ret[1]) if ret[0] == "phi" else {ret}
    run.require(any(m[0] == "call" and m[2] == A + wt for m in members), "O17.2", "dispatch-result:%s" % api, "%s does not return the result of %s unchanged: %s" % (api, wt, show(ret)),
                "the Some arm returns the timeout primitive's result unchanged; the None arm is the primitive itself (sibling rules apply to the in-place code)")


def thread_closures(f, sp):
    """closure def -> Site of the std::thread::spawn call it is passed to."""
    out = {}
    for site in sp.thread_spawns:
        tr = tracer_of(site.body)
        for a in tr.call_args(site.bb):
            a = tr.norm(a)
            if a[0] == "agg" and a[1][0] == "closure":
                out[a[1][1]] = site
    return out


def helper_shape(run, f, sp):
    tcs = thread_closures(f, sp)
    n = 0
    for cdef, site in tcs.items():
        cb = f.body(cdef)
        if cb is None:
            continue
        n += 1
        run.count_body(cb)
        fnname = sr.short_fn(site.root)
        names = [(fn_of(k).get("name"), fn_of(k).get("def") or "") for k in live_calls(cb)]
        has = lambda nm, frag: any(n_ == nm and frag in d for n_, d in names)
        run.require(has("new_current_thread", "runtime::Builder") and (has("enable_time", "Builder") or has("enable_all", "Builder")) and has("build", "Builder"),
                    "O17.3", "helper-runtime:%s" % fnname, "the helper thread of %s does not build a current-thread runtime with the timer enabled (%s)" % (fnname, [x[0] for x in names][:8]),
                    "Builder::new_current_thread().enable_time().build()", loc=site.loc)
        bo = [k for k in live_calls(cb) if fn_of(k).get("name") == "block_on"]
        okb = len(bo) == 1
        # it must be Runtime::block_on: on a current-thread runtime only that call drives the timer (Handle::block_on parks
        # the thread without turning the time driver - tokio's documented caveat - so the timeout would never fire)
        run.require(okb and (fn_of(bo[0]).get("def") or "").startswith("tokio::runtime::Runtime::") , "O17.3", "helper-block_on-drives-timer:%s" % fnname,
                    "the helper of %s enters the runtime through %s, which does not drive the timer of a current-thread runtime: the deadline would never fire" % (fnname, (fn_of(bo[0]).get("def") if bo else None)),
                    "Runtime::block_on (drives the time driver)", loc=site.loc)
        if okb:
            tr = tracer_of(cb)
            fut = strip_wrappers(tr.norm(tr.call_args(bo[0].idx)[1]))
            okb = fut[0] == "agg" and fut[1][0] == "coroutine" and any(s.body.defn == fut[1][1] for s in sp.timeouts)
        run.require(okb, "O17.3", "helper-block_on-timeout:%s" % fnname, "the helper of %s does not block_on an async block containing the tokio timeout wrapper" % fnname,
                    "runtime.block_on(async { timeout(d, self_clone.op(msg)).await.map_err(..)? })", loc=site.loc)
        snd = [k for k in live_calls(cb) if fn_of(k).get("name") == "send" and (fn_of(k).get("def") or "").startswith("std::sync::mpsc::Sender")]
        oks = len(snd) == 1
        if oks:
            tr = tracer_of(cb)
            v = tr.norm(tr.call_args(snd[0].idx)[1])
            oks = any(t[0] == "call" and bo and t[1] == bo[0].idx for t in subterms(v))
        run.require(oks, "O17.3", "helper-sends-result:%s" % fnname, "the helper of %s does not send the block_on result back" % fnname, "tx.send(result of block_on)", loc=site.loc)
        # outer: returns rx.recv().map_err(..)?
        ob = site.body
        otr = tracer_of(ob)
        ret = norm_try(otr, otr.local(0))
        members = set(ret[1]) if ret[0] == "phi" else {ret}
        okr = len(members) == 2 and {m[0] for m in members} == {"try_err", "try_ok"}
        if okr:
            c = strip_wrappers(list(members)[0][1])
            okr = c[0] == "call" and c[2].endswith("map_err")
            if okr:
                src = strip_wrappers(otr.norm(otr.call_args(c[1])[0]))
                okr = src[0] == "call" and src[2].startswith("std::sync::mpsc::Receiver") and src[2].endswith("recv")
        if not okr:
            # the same tail written as `rx.recv().unwrap_or_else(|_| Err(..))`: what the helper sent, or an Err if it died
            r2 = strip_wrappers(otr.norm(otr.local(0)))
            if r2[0] == "call" and r2[2].startswith("std::result::Result") and r2[2].endswith("unwrap_or_else"):
                src = strip_wrappers(otr.norm(otr.call_args(r2[1])[0]))
                okr = src[0] == "call" and src[2].startswith("std::sync::mpsc::Receiver") and src[2].endswith("recv")
        if not okr:
            # ... or as an explicit match: `match rx.recv() { Ok(result) => result, Err(_) => Err(Error::..) }`
            r3 = otr.norm(otr.local(0))
            mem3 = [strip_wrappers(m) for m in (r3[1] if r3[0] == "phi" else [r3])]
            got = [m for m in mem3 if m[0] == "field" and m[1] == 0 and m[2][0] == "downcast" and m[2][1] == "Ok" and strip_wrappers(m[2][2])[0] == "call"
                   and strip_wrappers(m[2][2])[2].startswith("std::sync::mpsc::Receiver") and strip_wrappers(m[2][2])[2].endswith("recv")]
            dead = [m for m in mem3 if m[0] == "agg" and m[1][:3] == ("adt", "std::result::Result", "Err")]
            okr = len(mem3) == 2 and len(got) == 1 and len(dead) == 1
        run.require(okr, "O17.3", "caller-returns-helper-result:%s" % fnname, "%s does not return `rx.recv().map_err(..)?`: %s" % (fnname, show(ret)), "returns what rx.recv() yields; dead helper => Err", loc=site.loc)
    run.require(n >= 2, "O17.3", "helper-floor", "only %d thread helpers found" % n, "%d thread helpers" % n)


def runtime_only_on_helper_thread(run, f, sp):
    tcs = thread_closures(f, sp)
    bad = []
    n = 0
    for b, blk in all_calls(f):
        fn = fn_of(blk)
        nm = fn.get("name")
        d = fn.get("def") or ""
        if (nm == "block_on" and fn.get("krate") in ("tokio", "futures_executor")) or (nm in ("current", "try_current") and "runtime::Handle" in d) or \
                (nm in ("new", "build") and ("runtime::Runtime" in d or "runtime::Builder" in d) and nm == "build"):
            n += 1
            # ancestors
            x = b
            inside = False
            guard = 0
            while x is not None and guard < 8:
                if x.defn in tcs:
                    inside = True
                    break
                x = f.body(x.parent) if x.parent else None
                guard += 1
            if not inside:
                bad.append((nm, b.name, loc_of(b, blk)))
    run.require(not bad and n >= 2, "O17.4", "runtime-only-in-thread-helper", "a runtime is entered on the caller's thread: %s" % bad,
                "block_on / runtime build (%d sites) only inside closures passed to std::thread::spawn" % n)


def aliases(run, f):
    for al, tgt in (("tell_blocking", "blocking_tell"), ("ask_blocking", "blocking_ask")):
        fn = f.fns.get(A + al)
        if not run.require(fn is not None, "O17.5", "alias-present:%s" % al, "%s not found" % al, "found"):
            continue
        run.require(fn["deprecated"], "O17.5", "alias-deprecated:%s" % al, "%s is no longer marked deprecated" % al, "#[deprecated]")
        cands = [b for b in f.family(A + al) if any(callee(k.term) == A + tgt for k in live_calls(b))]
        if not run.require(len(cands) == 1, "O17.5", "alias-body:%s" % al, "%s does not call %s" % (al, tgt), "found"):
            continue
        b = cands[0]
        tr = tracer_of(b)
        sp = sendpaths.get(f)
        ks = [k for k in live_calls(b) if callee(k.term) == A + tgt]
        args = [tr.norm(a) for a in tr.call_args(ks[0].idx)]
        who = sp.resolve_to_root_param(b, args[0])
        msg = sp.resolve_to_root_param(b, args[1])
        t3 = strip_wrappers(args[2]) if len(args) > 2 else None
        good = len(ks) == 1 and who[0] == "param" and who[2] == 1 and msg[0] == "param" and msg[2] == 2 and t3 is not None and t3[0] == "agg" and t3[1][:3] == ("adt", "std::option::Option", "None")
        ret = strip_wrappers(tr.norm(tr.local(0)))
        good = good and ret == ("call", ks[0].idx, A + tgt)
        run.require(good, "O17.5", "alias-forwards-none:%s" % al, "%s does not forward to %s(self, msg, None) (third argument %s)" % (al, tgt, show(t3) if t3 else None),
                    "%s(self, msg, None): the timeout argument is ignored" % tgt, loc=f.span(fn["span"]).loc)
