"""C08 - on_run is an idle handler: messages first, Ok(false) disables it for good."""
import lifecycle
from rules import c06
from rules.common import loc_of
from cfg import const_int

LEVEL = "other"
TRUSTED = ["T4", "T8", "T9"]
NOT_DECIDED = []
EXPLANATION = (
    "Messages first: the select! of the lifecycle loop is `biased;` with the on_run branch after both recv branches (C06 select "
    "rules re-evaluated). Disabled for good: the precondition of the on_run branch is a single bool local L (found through the "
    "span of the precondition in the macro call site, not by name); L is initialised `true` before the loop, never borrowed "
    "mutably, and its only assignment inside the loop is the constant `false` in the arm reached under Ok(false); the Ok(true) "
    "and Ok(false) arms return to the select!; the Err arm runs on_stop(false) and exits Failed (exploration states). The on_run "
    "future is handed to the select! and polled nowhere else.")


def run(run):
    for cfgname, f in run.for_configs():
        lc = lifecycle.get(f)
        if lc.errors or lc.body is None:
            for e in lc.errors:
                run.fail("O8.0", "lifecycle-anchor", e)
            continue
        run.count_body(lc.body)
        c06.select_structure(run, lc)        # O8.1
        idle_flag(run, lc)
        err_arm(run, lc)
        polled_only_by_select(run, lc)


def idle_flag(run, lc):
    b, cfg, f = lc.body, lc.cfg, lc.f
    L, why = lifecycle.find_idle_local(lc)
    if not run.require(L is not None, "O8.2", "idle-flag-local", why or "", "precondition of the on_run branch reads local _%s (`%s`)" % (L, b.local_name(L) if L is not None else None),
                       loc=lc.loc(lc.poll_fn_bb)):
        return
    run.require(b.local_ty(L).k == "bool", "O8.2", "idle-flag-bool", "the precondition local is not a bool", "bool local")
    # every assignment to L
    assigns = []
    borrowed = False
    for blk in b.blocks:
        if blk.idx not in cfg.live:
            continue
        for st in blk.stmts:
            if st["k"] != "assign":
                continue
            rv = st["rv"]
            if ("ref" in rv and rv.get("mut") and rv["ref"]["l"] == L) or ("rawptr" in rv and rv["rawptr"]["l"] == L):
                borrowed = True
            if st["place"]["l"] == L:
                v = const_int(rv["use"]) if "use" in rv else None
                assigns.append((blk.idx, v, st))
        t = blk.term
        if t["k"] == "call" and t["dest"]["l"] == L:
            assigns.append((blk.idx, None, None))
    run.require(not borrowed, "O8.2", "idle-flag-not-borrowed", "the idle flag is borrowed mutably (it could be changed behind the analysis)", "never borrowed mutably")
    P = lc.poll_fn_bb
    reach = cfg.reach_after(P)
    loop = {x for x in reach if P in cfg.reachable_from(x)} | {P}
    init = [(bb, v) for bb, v, _ in assigns if bb not in loop]
    inloop = [(bb, v) for bb, v, _ in assigns if bb in loop]
    run.require(len(init) == 1 and init[0][1] == 1 and cfg.dominates(init[0][0], P), "O8.2", "idle-flag-init-true",
                "the idle flag is not initialised `true` exactly once before the loop (%s)" % init, "initialised `true` before the loop", loc=lc.loc(init[0][0]) if init else None)
    # arms of the on_run outcome
    false_arm = true_arm = None
    for bb, info in lc.switch_info.items():
        c = info["cls"]
        if c and c[:2] == ("hook", "on_run") and len(c) == 4 and c[3] == ("payload", "Ok") and info["kind"] == "value":
            false_arm, true_arm = info["arms"].get("false"), info["arms"].get("true")
    merged = False
    if false_arm is None and true_arm is None:
        # `Ok(keep_idle) => idle_enabled = keep_idle`: the flag takes the returned bool itself (the branch only runs while the
        # flag is true, so Ok(true) leaves it true and Ok(false) clears it - the same two cases, decided by the exploration)
        ok_arm = None
        for bb, info in lc.switch_info.items():
            c = info["cls"]
            if c and c[:2] == ("hook", "on_run") and len(c) == 3 and info["kind"] == "discr":
                ok_arm = info["arms"].get("Ok")
        pay = []
        for bb, v, st in assigns:
            if bb in loop and st is not None and "use" in st["rv"]:
                c = lc.classify(lc.tr.norm(lc.tr.operand(st["rv"]["use"])))
                if c and c[:2] == ("hook", "on_run") and len(c) == 4 and c[3] == ("payload", "Ok"):
                    pay.append(bb)
        merged = ok_arm is not None and len(pay) >= 1 and len(pay) == len(inloop) and all(cfg.dominates(ok_arm, bb) or bb == ok_arm for bb in pay)
    if not run.require(merged or (false_arm is not None and true_arm is not None and false_arm != true_arm), "O8.3", "on_run-bool-arms",
                       "cannot find distinct Ok(true)/Ok(false) arms of the on_run outcome (nor `flag = <returned bool>` under the Ok arm)", "Ok(true) and Ok(false) cases identified"):
        return
    if merged:
        run.ok("O8.3", "idle-flag-only-cleared-on-ok-false", "inside the loop the flag is only assigned the bool returned by on_run, under its Ok arm (%d site(s))" % len(inloop))
        run.ok("O8.3", "ok-false-clears-flag", "Ok(false) stores false into the flag")
    else:
        bad = [(lc.loc(bb), v) for bb, v in inloop if v != 0 or not (cfg.dominates(false_arm, bb) or bb == false_arm)]
        run.require(not bad, "O8.3", "idle-flag-only-cleared-on-ok-false",
                    "the idle flag is assigned inside the loop other than `false` under Ok(false): %s" % bad,
                    "inside the loop the flag is only assigned `false`, under the Ok(false) arm (%d site(s))" % len(inloop))
        run.require(len(inloop) >= 1, "O8.3", "ok-false-clears-flag", "Ok(false) does not clear the idle flag: on_run would be polled again",
                    "Ok(false) arm clears the flag", loc=lc.loc(false_arm))
    # on every path through the Ok(false) arm back to the select the flag is false (exploration)
    ai = lc.explore()
    vals = set()
    for s in ai.states_at(P):
        if "on_run_false" in s[2] or True:
            pass
    # states at the loop head after an Ok(false): look at predecessors carrying on_run_false
    for s in ai.states:
        if "on_run_false" in s[2] and P in cfg.succ[s[0]]:
            vals.add(dict(s[1]).get(L))
    run.require(vals == {("c", 0)}, "O8.3", "flag-false-when-reselecting-after-ok-false",
                "after Ok(false) the select! can be re-entered with the idle flag = %s" % sorted(map(str, vals)),
                "after Ok(false) every re-entry of the select! has the flag == false")
    tvals = set()
    for s in ai.states:
        if "on_run_true" in s[2] and P in cfg.succ[s[0]]:
            tvals.add(dict(s[1]).get(L))
    run.require(tvals == {("c", 1)}, "O8.3", "flag-unchanged-after-ok-true", "after Ok(true) the idle flag is %s" % sorted(map(str, tvals)), "after Ok(true) the flag is still true")
    # once false it stays false: no state at the select with flag false came from ... (only assignment is false => monotone)
    run.sample({"rule": "O8.3", "config": run.cur_config, "idle_local": "_%d %s" % (L, b.local_name(L)), "in_loop_assignments": [(lc.loc(bb), v) for bb, v in inloop]})


def err_arm(run, lc):
    ai = lc.explore()
    rets = lc.cfg.exits(("return",))
    n = 0
    bad = []
    for r in rets:
        for s in ai.states_at(r):
            if "on_run_err" in s[2]:
                n += 1
                d = s[4]
                cnt = dict(s[3])
                if not d or d[0] != "Failed" or cnt.get("on_stop") != 1:
                    bad.append((d[0] if d else None, cnt))
    run.require(n >= 2 and not bad, "O8.4", "on_run-err-exits", "exits after an on_run error: %s (n=%d)" % (bad, n), "%d exit states after on_run Err: on_stop once, result Failed" % n)
    # killed=false at that on_stop
    for sbb in lc.hooks["on_stop"]:
        term = lc.body.blocks[sbb].term
        vals = set()
        for s in ai.states_at(sbb):
            if "on_run_err" in s[2]:
                vals.add(ai.operand_value_at_term(s, term["args"][2]))
        if vals:
            run.require(vals == {("c", 0)}, "O8.4", "on_run-err-on_stop-killed-false", "on_stop after an on_run error gets killed=%s" % sorted(map(str, vals)),
                        "on_stop(killed=false) after on_run Err", loc=lc.loc(sbb))


def polled_only_by_select(run, lc):
    rs = lc.hooks["on_run"]
    ok_ = len(rs) == 1 and any(br["call_bb"] == rs[0] and br["kind"] == "on_run" for br in lc.sel_branches) and rs[0] not in lc.hook_awaits
    run.require(ok_, "O8.5", "on_run-future-only-in-select", "the on_run future is awaited outside the select! or created at %d sites" % len(rs),
                "one on_run call; its future is the select! branch and is awaited nowhere else", loc=lc.loc(rs[0]) if rs else None)
    # through transparent wrappers only
    for br in lc.sel_branches:
        if br["kind"] == "on_run":
            extra = [w for w in br["root"].wrappers if w not in ("into_future", "instrument", "scope")]
            run.require(not extra, "O8.5", "on_run-wrappers-transparent", "on_run future is wrapped by %s" % extra, "wrappers: %s" % br["root"].wrappers)
