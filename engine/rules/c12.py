"""C12 - a failing actor fails alone."""
import lifecycle
import sendpaths
import deadlock
import anchors
from rules import c03, c04, c05
from rules.common import cfg_of, tracer_of, live_calls, fn_of, loc_of, all_calls
from cfg import callee, is_panic_call

LEVEL = "other"
TRUSTED = ["T6", "T7", "T8", "T9"]
NOT_DECIDED = ["'every other actor continues to satisfy all other properties' is the conjunction of the other checks plus the global-state inventory below (no other shared state exists)"]
EXPLANATION = (
    "Isolation: the lifecycle future goes directly into tokio::spawn (one site), there is no catch_unwind and no hook call on an unwind "
    "path, so a panic unwinds only that task, surfaces as a panic JoinError and on_stop is not run (tokio task axiom); pending and future "
    "senders get errors because both receivers die with the task (C03 rules re-evaluated). Global state inventory: every static of the "
    "crate under every feature set is classified (atomic counter, OnceLock, task-local key, tracing call-site metadata, the wait-for "
    "OnceLock<Mutex<HashMap>>); anything else is reported. Atomics/OnceLock cannot be left inconsistent by unwinding; the one Mutex can "
    "only be poisoned by a panic while its guard is live: in ask's guard region no panic entry point, Assert terminator or unwrap/expect "
    "is reachable (crate-local callees has_path/format_cycle_path included transitively) and the deliberate deadlock panic happens only "
    "after the guard was moved into mem::drop; WaitForGuard::drop never unwraps the lock result (a panicking destructor during "
    "unwinding would abort the process). Dead-letter accounting is part of the framework-wide state: the C13 pairing rule (one record "
    "call with the right reason on every failing delivery branch) is re-evaluated here.")


def run(run):
    for cfgname, f in run.for_configs():
        lc = lifecycle.get(f)
        if lc.errors or lc.body is None:
            for e in lc.errors:
                run.fail("O12.0", "lifecycle-anchor", e)
            continue
        run.count_body(lc.body)
        c05.spawn_shape(run, f, lc)            # O12.1
        c04.check_crate_wide(run, f)           # O12.2
        c03.receivers_die_with_actor(run, f, lc)   # O12.3
        sp = sendpaths.get(f)
        c03.asker_never_hangs(run, f, sp)
        # "its pending and future senders get errors" - error values, not panics of their own
        from rules import sendrules
        sendrules.delivery_never_panics(run, f, "O12.7")
        statics_inventory(run, f)
        # "dead-letter accounting is not corrupted": every sender that loses its message to the dead actor accounts for it
        # exactly once (C13 rule O13.1: one record call per failing branch, with the reason of that failure)
        from rules import c13
        c13.pairing(run, f, sp)
        if "deadlock-detection" in f.features:
            lock_discipline(run, f)
            # the wait-for graph must not be left with residue by an actor that panics (incl. the
            # deliberate deadlock panic): edge <=> guard, guard owned across every suspension point
            from rules import c15
            det = deadlock.get(f)
            if det.body is not None and not det.errors:
                c15.edge_iff_guard(run, f, det)
                c15.guard_lives_across_awaits(run, f, det)
                c15.destructor(run, f, det)


def classify_static(f, s):
    d = s["def"]
    ty = anchors.peel_newtype(f, f.ty(s["ty"]))
    ts = ty.s
    if "__CALLSITE" in d or ts.startswith("tracing::") or ts.startswith("tracing_core::") or "tracing" in ts.split("<")[0]:
        return "tracing call-site metadata"
    if ty.k == "adt" and ty.defn.startswith("std::sync::atomic::Atomic"):
        return "atomic counter"
    if ty.is_adt("std::sync::OnceLock"):
        inner = ty.args[0] if ty.args else None
        if inner is not None and inner.k in ("uint", "int", "bool"):
            return "OnceLock<scalar>"
        if inner is not None and inner.is_adt("std::sync::Mutex") and inner.args and anchors.is_wait_map(f, inner.args[0]):
            return "wait-for graph (OnceLock<Mutex<HashMap>>)"
        return None
    if ty.is_adt("tokio::task::LocalKey") or ty.is_adt("std::thread::LocalKey") or s.get("thread_local"):
        return "task-local / thread-local key"
    if ty.k in ("ref", "str") or ty.k == "array" or ts.startswith("&"):
        return "constant data"
    return None


def statics_inventory(run, f):
    kinds = {}
    for s in f.statics:
        k = classify_static(f, s)
        kinds.setdefault(k or "UNKNOWN", []).append(s["def"])
        if s["mut"]:
            run.fail("O12.4", "static-mut:%s" % s["def"], "`static mut` %s: unsynchronised global state" % s["def"], loc=f.span(s["span"]).loc)
            continue
        run.require(k is not None, "O12.4", "static-classified:%s" % s["def"], "static %s: %s is global state of a kind the isolation argument does not cover" % (s["def"], f.ty(s["ty"]).s),
                    k or "", loc=f.span(s["span"]).loc, nontrivial="__CALLSITE" not in s["def"])
    need = {"atomic counter", "OnceLock<scalar>"}
    from rules import c09
    m = c09.cell_model(f)
    if m and m[0] == "atomic":
        need = {"atomic counter"}       # the configured default lives in an atomic with an "unconfigured" marker (C09 O9.4 decides its discipline)
    run.require(need <= set(kinds), "O12.4", "expected-statics-present", "expected statics missing: %s" % sorted(need - set(kinds)), "inventory: %s" % {k: len(v) for k, v in kinds.items()})
    run.sample({"rule": "O12.4", "config": run.cur_config, "statics": {k: (v if len(v) < 4 else len(v)) for k, v in kinds.items()}})


def lock_discipline(run, f):
    det = deadlock.get(f)
    if det.errors or det.body is None:
        run.fail("O12.5", "detection-anchor", "; ".join(det.errors))
        return
    b = det.body
    run.count_body(b)
    if not run.require(len(det.guards) == 1 and det.region, "O12.5", "guard-region", "cannot compute the live range of the graph lock guard in ask", "guard region: %d blocks" % len(det.region)):
        return
    ps = deadlock.panic_sites_in(f, b, det.region, depth=3)
    run.require(not ps, "O12.5", "no-panic-under-graph-lock", "a panic can happen while the wait-for graph lock is held (the mutex would be poisoned for every actor): %s" % ps[:3],
                "no panic entry / Assert / unwrap reachable while the guard is live (has_path, format_cycle_path inlined)")
    # the deliberate panic is outside the region
    dp = [p for p in det.panics if p in det.cfg.reachable_from(det.acquire)]
    inreg = [det.loc(p) for p in dp if p in det.region]
    run.require(dp and not inreg, "O12.5", "deadlock-panic-after-unlock", "the deadlock panic is raised while the graph lock is still held: %s" % inreg, "the deliberate panic happens only after the guard was moved into mem::drop")
    # every acquisition of the graph mutex in the crate is either ask's or the tolerant destructor's
    acq = []
    for bd, blk in all_calls(f):
        if fn_of(blk).get("name") == "lock" and "Mutex" in (fn_of(blk).get("def") or ""):
            acq.append(bd)
    names = sorted({x.root or x.defn for x in acq})
    run.require(len(acq) == 2, "O12.5", "lock-acquisition-sites", "the graph mutex is locked in %s" % names, "lock acquired in %s" % names)
    # O12.6 destructor tolerance
    d = __import__("anchors").guard_drop_def(f)
    db = f.body(d)
    if run.require(db is not None, "O12.6", "drop-impl", "WaitForGuard::drop not found", "found"):
        ps = deadlock.panic_sites_in(f, db, None, depth=2)
        run.require(not ps, "O12.6", "destructor-never-panics", "WaitForGuard::drop can panic (%s): a panic in a destructor during unwinding aborts the process" % ps[:2],
                    "WaitForGuard::drop tolerates a poisoned lock (no unwrap/expect/panic)")
    # other guards (e.g. in drop) also have panic-free regions
    for bd in {x.name: x for x in acq}.values():
        if bd.name == b.name:
            continue
        gl = [i for i, l in enumerate(bd.locals) if deadlock.is_graph_guard_ty(f.ty(l["ty"]), f) and f.ty(l["ty"]).is_adt(deadlock.GRAPH_GUARD)]
        ps = deadlock.panic_sites_in(f, bd, None, depth=2) if gl else []
        run.require(not ps, "O12.5", "no-panic-under-graph-lock:%s" % (bd.root or bd.defn), "panic possible under the graph lock in %s: %s" % (bd.name, ps[:2]), "panic-free")
