"""C16 - type-erased handles are transparent (verbatim forwarders)."""
from rules.common import cfg_of, tracer_of, live_calls, fn_of, loc_of
from rules import c07
from prov import strip_refs, show, fn_path
from cfg import callee

LEVEL = "other"
TRUSTED = ["T6", "T8"]
NOT_DECIDED = []
EXPLANATION = (
    "Every method of the six handle-trait impls, every From conversion into a boxed handle and Clone for the boxed handles is shown to "
    "be a verbatim forwarder: its only calls are the expected callee plus transparent wrappers (FutureExt::boxed, Box::new, Clone::clone, "
    "Option::map with a boxing closure), each argument of the callee is exactly the corresponding parameter in order (no constant, no "
    "arithmetic, no dropped timeout), and the returned value is the callee's result through those wrappers only. The expected callee is "
    "derived from the method name (a trait method m forwards to the inherent ActorRef/ActorWeak method m; clone_boxed boxes a clone into the "
    "same trait; downgrade/upgrade box the inherent result into the weak/strong counterpart; as_control returns self). What stands behind a "
    "strong/weak object is decided by the impl and unsize-coercion inventory (C07 rule).")

STRONG = {"handler::TellHandler": "handler::WeakTellHandler", "handler::AskHandler": "handler::WeakAskHandler", "actor_control::ActorControl": "actor_control::WeakActorControl"}
WEAK = {v: k for k, v in STRONG.items()}
SIX = set(STRONG) | set(WEAK)
INHERENT = {"actor_ref::ActorRef": "actor_ref::ActorRef::<T>::", "actor_ref::ActorWeak": "actor_ref::ActorWeak::<T>::"}
FORWARDED = {"tell", "tell_with_timeout", "blocking_tell", "ask", "ask_with_timeout", "blocking_ask", "identity", "is_alive", "stop", "kill"}
WRAP_CALLS = {"futures_util::future::future::FutureExt::boxed"}
WRAP_DEFS = {"std::boxed::Box::<T>::pin"}      # `Box::pin(fut)` is what `fut.boxed()` does


def _is_wrap(term):
    return (fn_path(term) or "") in WRAP_CALLS or (callee(term) or "") in WRAP_DEFS
FMT_OK = ("core::fmt::", "std::fmt::")


def dyn_of(f, tyid):
    for t in f.ty(tyid).walk():
        if t.k == "dyn" and t.defn in SIX:
            return t.defn
    return None


def peel(tr, t):
    """Strip unsize/reborrow casts and refs; returns (inner, [dyn traits cast into])."""
    dyns = []
    while True:
        if t[0] == "cast" and (t[1].startswith("ptr:") or t[1] in ("PtrToPtr", "Subtype")):
            if len(t) > 3:
                d = dyn_of(tr.f, t[3])
                if d:
                    dyns.append(d)
            t = t[2]
        elif t[0] in ("ref", "deref"):
            t = t[1]
        else:
            return t, dyns


def is_box_new(tr, t):
    return t[0] == "call" and t[2].startswith("std::boxed::Box") and t[2].endswith("::new")


def run(run):
    for cfgname, f in run.for_configs():
        n = 0
        for d, fn in sorted(f.fns.items()):
            if not fn.get("has_body"):
                continue
            it = fn.get("impl_trait")
            self_ty = f.ty(fn["impl_self"]) if fn.get("impl_self") is not None else None
            if it in SIX and self_ty is not None:
                n += 1
                trait_method(run, f, d, fn, it, self_ty)
            elif it == "std::convert::From" and self_ty is not None and dyn_of(f, fn["impl_self"]):
                n += 1
                from_impl(run, f, d, fn)
            elif it == "std::clone::Clone" and self_ty is not None and dyn_of(f, fn["impl_self"]) and fn["name"] == "clone":
                n += 1
                clone_box(run, f, d, fn)
        run.require(n >= 34 + 12 + 6, "O16.0", "forwarder-floor", "only %d forwarder bodies found (expected 34 trait methods + 12 From + 6 Clone)" % n, "%d forwarder bodies analysed" % n)
        c07.weak_is_weak(run, f)


PURE_STD_NAMES = {"is_closed", "strong_count", "weak_count", "same_channel", "capacity", "max_capacity", "is_some", "is_none", "is_ok", "is_err",
                  "deref", "as_ref", "borrow", "eq", "ne", "lt", "le", "gt", "ge", "cmp", "partial_cmp", "len", "is_empty"}
_pure_cache = {}


def pure_observer(f, d, depth=0):
    """A crate function that only *reads*: a plain (non-async) fn whose parameters are shared references / Copy scalars,
    that writes through no pointer and whose calls are read-only std accessors or other such functions. Calling it an
    extra time cannot change what any other call returns, so it does not count as "doing something else" in a forwarder."""
    k = (f.path, d)
    if k in _pure_cache:
        return _pure_cache[k]
    _pure_cache[k] = False          # cycles: not pure
    fn = f.fns.get(d)
    body = f.body(d)
    ok = fn is not None and body is not None and not fn.get("async") and body.def_kind in ("Fn", "AssocFn") and depth < 4
    if ok:
        for t in fn["inputs"]:
            ty = f.ty(t)
            if ty.k == "ref" and "&mut" in ty.s[:5]:
                ok = False
            if ty.k in ("rawptr",):
                ok = False
    if ok:
        for blk in body.blocks:
            for st in blk.stmts:
                if st["k"] == "assign" and any(e == "*" for e in st["place"]["p"]):
                    ok = False
                if st["k"] == "assign" and (("ref" in st["rv"] and st["rv"].get("mut")) or "rawptr" in st["rv"]):
                    ok = False
            t = blk.term
            if t["k"] == "call" and not blk.cleanup and blk.idx in cfg_of(body).live:
                fn2 = t.get("fn") or {}
                c = fn2.get("def") or ""
                if fn2.get("krate") == f.crate or c in f.fns:
                    if not pure_observer(f, (fn2.get("resolved") or {}).get("def") or c, depth + 1):
                        ok = False
                elif fn2.get("name") not in PURE_STD_NAMES:
                    ok = False
            elif t["k"] in ("yield", "inline_asm"):
                ok = False
    _pure_cache[k] = ok
    return ok


def body_calls(f, body):
    out = []
    for blk in live_calls(body):
        if blk.cleanup:
            continue
        out.append(blk)
    return out


def key_of(d):
    return d.replace("actor_ref::", "").replace("handler::", "").replace("actor_control::", "")


def trait_method(run, f, d, fn, trait, self_ty):
    body = f.body(d)
    if body is None:
        run.fail("O16.1", "body:%s" % key_of(d), "no body for %s" % d)
        return
    run.count_body(body)
    tr = tracer_of(body)
    m = fn["name"]
    key = key_of(d)
    loc = f.span(fn["span"]).loc
    target = self_ty.defn
    prefix = INHERENT.get(target)
    calls = body_calls(f, body)
    ret, dyns = peel(tr, tr.norm(tr.local(0)))
    nparams = body.arg_count

    def only_calls(allowed_defs, allowed_paths=()):
        extra = [callee(b.term) for b in calls if callee(b.term) not in allowed_defs and (fn_path(b.term) or "") not in allowed_paths and not (allowed_paths and _is_wrap(b.term))]
        return extra

    if m in FORWARDED:
        K = prefix + m
        # through boxed() for futures
        core = ret
        if core[0] == "call" and _is_wrap(tr.call_term(core[1])):
            core, _ = peel(tr, tr.norm(tr.call_args(core[1])[0]))
        okc = core[0] == "call" and core[2] == K
        if not run.require(okc, "O16.1", "callee:%s" % key, "%s returns %s instead of forwarding to %s" % (key, show(ret), K), "forwards to %s" % K, loc=loc):
            return
        args = [tr.norm(a) for a in tr.call_args(core[1])]
        okargs = len(args) == nparams and all(strip_refs(a) == ("param", i + 1) for i, a in enumerate(args))
        run.require(okargs, "O16.1", "args:%s" % key, "%s passes (%s) to %s instead of its own parameters in order" % (key, ", ".join(show(a) for a in args), K),
                    "arguments are the method's parameters, in order (%d)" % nparams, loc=loc)
        extra = [x for x in only_calls({K}, WRAP_CALLS) if not (x and x.startswith(prefix) and pure_observer(f, x))]     # other read-only accessors of the same handle are harmless
        run.require(not extra, "O16.1", "no-extra-calls:%s" % key, "%s also calls %s" % (key, extra), "no other call", loc=loc)
        run.sample({"rule": "O16.1", "method": key, "forwards_to": K, "args": [show(a) for a in args]}) if m in ("tell_with_timeout", "kill") and run.cur_config == "default" else None
        return
    if m in ("clone_boxed", "downgrade") and ret[0] == "call" and (fn_path(tr.call_term(ret[1])) or "") in ("core::convert::Into::into", "core::convert::From::from"):
        # `self.into()` / `ActorRef::downgrade(self).into()` through the crate's own `From<..> for Box<dyn Trait>`: accepted when
        # that impl is the *direct* one (Box::new(arg.clone()) / Box::new(arg), rule O16.4 - not one that delegates back here)
        arg = strip_refs(tr.norm(tr.call_args(ret[1])[0]))
        K = prefix + "downgrade"
        if m == "clone_boxed":
            ok_arg = arg == ("param", 1)
        else:
            ok_arg = arg[0] == "call" and arg[2] == K and strip_refs(tr.norm(tr.call_args(arg[1])[0])) == ("param", 1)
        a0 = tr.call_term(ret[1])["args"][0]
        pl0 = a0.get("move") or a0.get("copy")
        src_s = f.ty(body.locals[pl0["l"]]["ty"]).s if pl0 and not pl0["p"] else None
        out_s = f.ty(fn["output"]).s
        impls = [dd for dd, ff in f.fns.items() if ff.get("impl_trait") == "std::convert::From" and ff.get("name") == "from" and ff.get("has_body") and ff["inputs"]
                 and f.ty(ff["inputs"][0]).s == src_s and f.ty(ff["output"]).s == out_s]
        direct = False
        if len(impls) == 1:
            ib = f.body(impls[0])
            itr = tracer_of(ib)
            iret, _ = peel(itr, itr.norm(itr.local(0)))
            direct = is_box_new(itr, iret)
        extra = [callee(b.term) for b in calls if b.idx != ret[1] and callee(b.term) != K]
        run.require(ok_arg and direct and not extra, "O16.2", "%s:%s" % (m, key), "%s returns %s through into(): argument %s, direct From impl for (%s -> %s): %s, other calls %s" % (key, show(ret), show(arg), src_s, out_s, impls if direct else "none", extra),
                    "%s via the crate's direct From<%s> for %s" % (m, src_s, out_s), loc=loc)
        run.ok("O16.2", "no-extra-calls:%s" % key, "no other call", loc=loc)
        return
    if m == "clone_boxed":
        core = ret
        okc = is_box_new(tr, core)
        inner = strip_refs(tr.norm(tr.call_args(core[1])[0])) if okc else None
        okc = okc and inner[0] == "call" and fn_path(tr.call_term(inner[1])) == "core::clone::Clone::clone" and strip_refs(tr.norm(tr.call_args(inner[1])[0])) == ("param", 1)
        run.require(okc and dyns and all(x == trait for x in dyns), "O16.2", "clone_boxed:%s" % key, "%s returns %s (into %s)" % (key, show(ret), dyns), "Box::new(self.clone()) as Box<dyn %s>" % trait.split("::")[-1], loc=loc)
        extra = [callee(b.term) for b in calls if not (is_box_new(tr, ("call", b.idx, callee(b.term) or "")) or fn_path(b.term) == "core::clone::Clone::clone")]
        run.require(not extra, "O16.2", "no-extra-calls:%s" % key, "%s also calls %s" % (key, extra), "no other call", loc=loc)
        return
    if m == "downgrade":
        want = STRONG.get(trait)
        core = ret
        okc = is_box_new(tr, core)
        inner = strip_refs(tr.norm(tr.call_args(core[1])[0])) if okc else None
        K = prefix + "downgrade"
        okc = okc and inner[0] == "call" and inner[2] == K and strip_refs(tr.norm(tr.call_args(inner[1])[0])) == ("param", 1)
        run.require(okc and dyns and all(x == want for x in dyns), "O16.2", "downgrade:%s" % key, "%s returns %s (into %s), expected Box::new(ActorRef::downgrade(self)) as the weak counterpart %s" % (key, show(ret), dyns, want),
                    "Box::new(ActorRef::downgrade(self)) as Box<dyn %s>" % want.split("::")[-1], loc=loc)
        extra = [callee(b.term) for b in calls if not (is_box_new(tr, ("call", b.idx, callee(b.term) or "")) or callee(b.term) == K)]
        run.require(not extra, "O16.2", "no-extra-calls:%s" % key, "%s also calls %s" % (key, extra), "no other call", loc=loc)
        return
    if m == "upgrade":
        want = WEAK.get(trait)
        K = prefix + "upgrade"
        core = ret
        okc = core[0] == "call" and core[2].endswith("Option::<T>::map")
        clos_ok = False
        if okc:
            a = [tr.norm(x) for x in tr.call_args(core[1])]
            src = strip_refs(a[0])
            okc = src[0] == "call" and src[2] == K and strip_refs(tr.norm(tr.call_args(src[1])[0])) == ("param", 1)
            mapper = a[1]
            if mapper[0] == "agg" and mapper[1][0] == "closure":
                cb = f.body(mapper[1][1])
            elif mapper[0] == "fn":
                cb = f.body(mapper[1])      # `.map(boxed_handler)`: a named private fn instead of a closure
                if cb is not None:
                    ctr = tracer_of(cb)
                    cret, cdyns = peel(ctr, ctr.norm(ctr.local(0)))
                    if is_box_new(ctr, cret):
                        cin = strip_refs(ctr.norm(ctr.call_args(cret[1])[0]))
                        clos_ok = cin == ("param", 1) and cdyns and all(x == want for x in cdyns) and len(list(live_calls(cb))) == 1
                cb = None
            else:
                cb = None
            if a[1][0] == "agg" and a[1][1][0] == "closure":
                if cb is not None:
                    ctr = tracer_of(cb)
                    cret, cdyns = peel(ctr, ctr.norm(ctr.local(0)))
                    if is_box_new(ctr, cret):
                        cin = strip_refs(ctr.norm(ctr.call_args(cret[1])[0]))
                        clos_ok = cin == ("param", 2) and cdyns and all(x == want for x in cdyns) and len(list(live_calls(cb))) == 1
        if not (okc and clos_ok):
            # the same mapping written with `?`: `let strong = ActorWeak::upgrade(self)?; Some(Box::new(strong))`
            from sendpaths import norm_try
            r2 = norm_try(tr, tr.local(0))
            mem = list(r2[1]) if r2[0] == "phi" else [r2]
            def is_up(t):
                t = strip_refs(t)
                return t[0] == "call" and t[2] == K and strip_refs(tr.norm(tr.call_args(t[1])[0])) == ("param", 1)
            n_some = n_none = 0
            for mm in mem:
                core2, d2 = peel(tr, mm)
                if core2[0] == "try_err" and is_up(core2[1]):
                    n_none += 1
                elif core2[0] == "agg" and core2[1][:3] == ("adt", "std::option::Option", "Some"):
                    inner, d3 = peel(tr, core2[2][0])
                    if inner[0] == "call" and (fn_path(tr.call_term(inner[1])) or "") in ("core::convert::Into::into", "core::convert::From::from"):
                        # `Some(strong.into())`: boxing through the crate's direct by-value `From<ActorRef<T>> for Box<dyn ..>`
                        x = norm_try(tr, tr.call_args(inner[1])[0])
                        oty = f.ty(fn["output"])
                        out_s = oty.args[0].s if oty.args else None
                        impls = [dd_ for dd_, ff in f.fns.items() if ff.get("impl_trait") == "std::convert::From" and ff.get("name") == "from" and ff.get("has_body") and ff["inputs"]
                                 and f.ty(ff["inputs"][0]).is_adt("actor_ref::ActorRef") and f.ty(ff["output"]).s == out_s]
                        direct = False
                        if len(impls) == 1:
                            ib = f.body(impls[0])
                            itr = tracer_of(ib)
                            iret, _ = peel(itr, itr.norm(itr.local(0)))
                            direct = is_box_new(itr, iret) and strip_refs(itr.norm(itr.call_args(iret[1])[0])) == ("param", 1)
                        if x[0] == "try_ok" and is_up(x[1]) and direct:
                            n_some += 1
                            via_into = True
                    elif is_box_new(tr, inner):
                        x = norm_try(tr, tr.call_args(inner[1])[0])
                        dd = list(d2) + list(d3)
                        if x[0] == "try_ok" and is_up(x[1]) and dd and all(z == want for z in dd):
                            n_some += 1
            # ... or with an explicit match: `match ActorWeak::upgrade(self) { Some(r) => Some(Box::new(r)), None => None }`
            if not (n_some == 1 and n_none == 1 and len(mem) == 2):
                r3 = tr.norm(tr.local(0))
                mem3 = list(r3[1]) if r3[0] == "phi" else [r3]
                n_some = n_none = 0
                for mm in mem3:
                    core3, d2 = peel(tr, mm)
                    if core3[0] == "agg" and core3[1][:3] == ("adt", "std::option::Option", "None"):
                        n_none += 1
                    elif core3[0] == "agg" and core3[1][:3] == ("adt", "std::option::Option", "Some"):
                        inner, d3 = peel(tr, core3[2][0])
                        if is_box_new(tr, inner):
                            x = strip_refs(tr.norm(tr.call_args(inner[1])[0]))
                            dd = list(d2) + list(d3)
                            if x[0] == "field" and x[1] == 0 and x[2][0] == "downcast" and x[2][1] == "Some" and is_up(x[2][2]) and dd and all(z == want for z in dd):
                                n_some += 1
                mem = mem3
            if n_some == 1 and n_none == 1 and len(mem) == 2:
                okc = clos_ok = True
                calls = [b for b in calls if (fn_path(b.term) or "") not in ("core::ops::try_trait::Try::branch", "core::ops::try_trait::FromResidual::from_residual", "core::convert::Into::into", "core::convert::From::from")
                         and not is_box_new(tr, ("call", b.idx, callee(b.term) or ""))]
        run.require(okc and clos_ok, "O16.2", "upgrade:%s" % key, "%s is not ActorWeak::upgrade(self).map(|r| Box::new(r) as Box<dyn %s>): %s" % (key, want, show(ret)),
                    "ActorWeak::upgrade(self).map(box into dyn %s)" % want.split("::")[-1], loc=loc)
        extra = [callee(b.term) for b in calls if callee(b.term) != K and not (callee(b.term) or "").endswith("Option::<T>::map")]
        run.require(not extra, "O16.2", "no-extra-calls:%s" % key, "%s also calls %s" % (key, extra), "no other call", loc=loc)
        return
    if m in ("as_control", "as_weak_control"):
        want = "actor_control::ActorControl" if m == "as_control" else "actor_control::WeakActorControl"
        run.require(ret == ("param", 1) and dyns and all(x == want for x in dyns) and not calls, "O16.2", "as_control:%s" % key,
                    "%s returns %s (into %s) with calls %s" % (key, show(ret), dyns, [callee(b.term) for b in calls]), "returns self as &dyn %s" % want.split("::")[-1], loc=loc)
        return
    if m == "debug_fmt":
        allowed = {prefix + "identity", prefix + "is_alive"}
        extra = []
        for b in calls:
            c = callee(b.term) or ""
            p = fn_path(b.term) or ""
            r = (fn_of(b).get("resolved") or {}).get("def")
            if c in allowed or r in allowed or p.startswith(FMT_OK) or c.startswith(FMT_OK):
                continue
            # trait-dispatched identity()/is_alive() on self
            if fn_of(b).get("name") in ("identity", "is_alive") and fn_of(b).get("trait") in SIX | {None}:
                continue
            # a crate-private accessor trait / helper whose implementation only reads identity() / is_alive()
            pure = {"actor_ref::ActorRef::<T>::identity", "actor_ref::ActorRef::<T>::is_alive", "actor_ref::ActorWeak::<T>::identity", "actor_ref::ActorWeak::<T>::is_alive"}
            cands = []
            if r and f.body(r) is not None:
                cands = [f.body(r)]
            elif fn_of(b).get("trait") in f.traits and fn_of(b).get("krate") == f.crate:
                # unresolved (generic receiver): every implementation of that crate-local trait method must be pure
                for im in f.impls:
                    if im.get("trait") == fn_of(b).get("trait"):
                        for it in im["items"]:
                            if it["def"].endswith("::" + (fn_of(b).get("name") or "?")) and f.body(it["def"]) is not None:
                                cands.append(f.body(it["def"]))
            if cands and all((lambda inner: inner and all(x in pure for x in inner))([callee(k.term) or "" for k in body_calls(f, rb)]) for rb in cands):
                continue
            extra.append(c)
        run.require(not extra, "O16.3", "debug_fmt-pure:%s" % key, "%s calls %s" % (key, extra), "debug_fmt only formats identity/is_alive", loc=loc)
        return
    run.fail("O16.1", "unknown-method:%s" % key, "trait method %s has no forwarding rule in the checker" % key, loc=loc)


def from_impl(run, f, d, fn):
    body = f.body(d)
    key = key_of(d)
    if body is None:
        run.fail("O16.4", "body:%s" % key, "no body")
        return
    run.count_body(body)
    tr = tracer_of(body)
    loc = f.span(fn["span"]).loc
    ret, dyns = peel(tr, tr.norm(tr.local(0)))
    want = dyn_of(f, fn["impl_self"])
    src_ty = f.ty(fn["inputs"][0])
    byref = src_ty.k in ("ref", "refmut")
    okc = is_box_new(tr, ret)
    inner = strip_refs(tr.norm(tr.call_args(ret[1])[0])) if okc else None
    if okc and byref:
        okc = inner[0] == "call" and fn_path(tr.call_term(inner[1])) == "core::clone::Clone::clone" and strip_refs(tr.norm(tr.call_args(inner[1])[0])) == ("param", 1)
    elif okc:
        okc = inner == ("param", 1)
    if not okc and byref and ret[0] == "call" and ret[2] == want + "::clone_boxed" and strip_refs(tr.norm(tr.call_args(ret[1])[0])) == ("param", 1) \
            and len(body_calls(f, body)) == 1:
        # `From<&X>` delegating to X's own clone_boxed (statically dispatched; that method is Box::new(self.clone()) by O16.2)
        run.ok("O16.4", "from:%s" % key, "delegates to <%s as %s>::clone_boxed" % (src_ty.peel_refs().s[:30], want.split("::")[-1]), loc=loc)
        run.ok("O16.4", "no-extra-calls:%s" % key, "no other call", loc=loc)
        return
    if not okc and byref and ret[0] == "call" and (fn_path(tr.call_term(ret[1])) or "") in ("core::convert::From::from", "core::convert::Into::into"):
        # `From<&X>` delegating to the by-value impl: `Self::from(x.clone())` - accepted when that impl is the direct one
        a = strip_refs(tr.norm(tr.call_args(ret[1])[0]))
        cl = a[0] == "call" and fn_path(tr.call_term(a[1])) == "core::clone::Clone::clone" and strip_refs(tr.norm(tr.call_args(a[1])[0])) == ("param", 1)
        owned_s = src_ty.peel_refs().s
        out_s = f.ty(fn["output"]).s
        impls = [dd for dd, ff in f.fns.items() if ff.get("impl_trait") == "std::convert::From" and ff.get("name") == "from" and ff.get("has_body") and ff["inputs"]
                 and f.ty(ff["inputs"][0]).s == owned_s and f.ty(ff["output"]).s == out_s and dd != d]
        direct = False
        if len(impls) == 1:
            ib = f.body(impls[0])
            itr = tracer_of(ib)
            iret, _ = peel(itr, itr.norm(itr.local(0)))
            direct = is_box_new(itr, iret) and strip_refs(itr.norm(itr.call_args(iret[1])[0])) == ("param", 1)
        extra = [callee(b.term) for b in body_calls(f, body) if b.idx not in (ret[1], a[1] if a[0] == "call" else -1)]
        if cl and direct and not extra:
            run.ok("O16.4", "from:%s" % key, "delegates to the direct by-value From<%s> with arg.clone()" % owned_s[:30], loc=loc)
            run.ok("O16.4", "no-extra-calls:%s" % key, "no other call", loc=loc)
            return
    run.require(okc and dyns and all(x == want for x in dyns), "O16.4", "from:%s" % key, "%s returns %s" % (key, show(ret)),
                "Box::new(%s) as Box<dyn %s>" % ("arg.clone()" if byref else "arg", want.split("::")[-1]), loc=loc)
    extra = [callee(b.term) for b in body_calls(f, body) if not (is_box_new(tr, ("call", b.idx, callee(b.term) or "")) or fn_path(b.term) == "core::clone::Clone::clone")]
    run.require(not extra, "O16.4", "no-extra-calls:%s" % key, "%s also calls %s" % (key, extra), "no other call", loc=loc)


def clone_box(run, f, d, fn):
    body = f.body(d)
    key = key_of(d)
    if body is None:
        run.fail("O16.5", "body:%s" % key, "no body")
        return
    run.count_body(body)
    tr = tracer_of(body)
    loc = f.span(fn["span"]).loc
    ret, dyns = peel(tr, tr.norm(tr.local(0)))
    want = dyn_of(f, fn["impl_self"])
    okc = ret[0] == "call" and ret[2] == want + "::clone_boxed"
    if okc:
        a = strip_refs(tr.norm(tr.call_args(ret[1])[0]))
        # &**self : deref of the box behind the reference
        while a[0] in ("deref", "ref"):
            a = a[1]
        okc = a == ("param", 1)
    calls = body_calls(f, body)
    run.require(okc and len(calls) == 1, "O16.5", "clone-box:%s" % key, "%s returns %s (calls %s)" % (key, show(ret), [callee(b.term) for b in calls]), "self.clone_boxed()", loc=loc)
