"""C10 - timeouts: deadline is the caller's, spans the whole operation, never masks other outcomes."""
import sendpaths
import minterp as mi
from minterp import Interp, enum, sym, B
from sendpaths import norm_try, subterms
from rules.common import cfg_of, tracer_of, live_calls, fn_of, loc_of
from prov import strip_wrappers, show, fn_path

LEVEL = "other"
TRUSTED = ["T1", "T5", "T7", "T8"]
NOT_DECIDED = ["that the call returns *at* the deadline (timer accuracy, scheduling latency, helper-thread start-up) is a runtime quantity; the check decides that the deadline handed to tokio's timer is exactly the caller's Duration and that it wraps the whole base operation, which is the necessary structural part"]
EXPLANATION = (
    "Every tokio::time::timeout call of the crate (4 sites: tell_with_timeout, ask_with_timeout, the two blocking helpers) gets as "
    "duration exactly the Duration parameter of its API function (provenance through closure/coroutine captures, no arithmetic) and "
    "as future exactly the complete base operation tell(self|self.clone(), msg) / ask(..) on the same actor with the message "
    "parameter, awaited immediately. Error::Timeout is constructed only in closures over tokio's Elapsed that are passed to map_err "
    "on that very await, carries the same Duration and self.identity(); after `?` the inner Result reaches the return value "
    "unchanged, so non-timeout failures are reported as themselves. is_retryable is decided by its full decision table (true iff Timeout).")

BASE = {"actor_ref::ActorRef::<T>::tell": "tell", "actor_ref::ActorRef::<T>::ask": "ask"}


def run(run):
    for cfgname, f in run.for_configs():
        sp = sendpaths.get(f)
        durations = wrapper_shape(run, f, sp)
        error_mapping(run, f, sp, durations)
        retryable(run, f)
        # "the blocking variants given a timeout return by their deadline": every Some(d) must reach the timeout primitive
        # with that d (C17 rule O17.2: None => no-timeout primitive, Some(d) => timeout primitive with d)
        from rules import c17
        c17.dispatch(run, f)
        # ... and the helper thread really lets that deadline fire: current-thread runtime with the timer enabled, entered
        # through Runtime::block_on on the timeout wrapper (C17 rule O17.3)
        c17.helper_shape(run, f, sp)


def wrapper_shape(run, f, sp):
    durations = {}
    roots = []
    for site in sp.timeouts:
        b = site.body
        run.count_body(b)
        tr = tracer_of(b)
        fnname = site.root.split("::")[-1]
        roots.append(fnname)
        key = fnname
        args = [tr.norm(a) for a in tr.call_args(site.bb)]
        d = deadline_param(run, f, sp, site, tr, args[0], fnname) if fn_path(b.blocks[site.bb].term) == "tokio::time::timeout::timeout_at" \
            else sp.resolve_to_root_param(b, args[0])
        rootfn = f.fns.get(site.root)
        okd = d[0] == "param" and d[1] == site.root and rootfn is not None and d[2] - 1 < len(rootfn["inputs"]) and \
            f.ty(rootfn["inputs"][d[2] - 1]).is_adt("std::time::Duration")
        run.require(okd, "O10.1", "duration-is-parameter:%s" % key,
                    "the deadline passed to tokio::time::timeout in %s is %s, not the function's Duration parameter unchanged" % (fnname, show(d) if isinstance(d, tuple) else d),
                    "duration == parameter #%s of %s" % (d[2] if okd else "?", fnname), loc=site.loc)
        if okd:
            durations[site.root] = d[2]
        # the wrapped future may be built by the caller of a shared (inlined) helper and handed in: follow it to where it is made
        fb, fut = sp.lift(b, args[1])
        fut = strip_wrappers(fut)
        ftr = tracer_of(fb)
        base = fut[2] if fut[0] == "call" else None
        okf = base in BASE and (BASE[base] in fnname)
        if okf:
            bargs = [ftr.norm(a) for a in ftr.call_args(fut[1])]
            who = sp.resolve_to_root_param(fb, bargs[0])
            msg = sp.resolve_to_root_param(fb, bargs[1])
            okf = who[0] in ("param", "clone_of_param") and who[2] == 1 and msg[0] == "param" and msg[2] == 2
        run.require(okf, "O10.1", "future-is-whole-operation:%s" % key,
                    "the future under the timeout in %s is %s, not the complete %s(self, msg)" % (fnname, show(fut), "ask" if "ask" in fnname else "tell"),
                    "timeout wraps %s(self, msg)" % BASE.get(base), loc=site.loc)
        # awaited immediately in the same body
        polls = [blk.idx for blk in live_calls(b) if fn_path(blk.term) == sendpaths.POLL and _await_root(tr, blk.idx) == site.bb]
        run.require(len(polls) == 1, "O10.1", "awaited:%s" % key, "the Timeout future of %s is awaited at %d places" % (fnname, len(polls)), "awaited once, in place", loc=site.loc)
        run.sample({"rule": "O10.1", "config": run.cur_config, "fn": fnname, "duration": show(d), "future": show(fut)})
    need = ["tell_with_timeout", "ask_with_timeout"]
    for n in need:
        run.require(roots.count(n) == 1, "O10.1", "wrapper-has-timeout:%s" % n, "%s contains %d tokio::time::timeout calls" % (n, roots.count(n)), "one timeout call")
    run.require(len(roots) >= 4 and sum(1 for r in roots if r.startswith("blocking_")) >= 2, "O10.1", "timeout-site-floor",
                "timeout sites found: %s (expected the two async wrappers and the two blocking helpers)" % roots, "%d sites" % len(roots))
    return durations


def deadline_param(run, f, sp, site, tr, dl, fnname):
    """timeout_at(deadline, fut): the deadline must be `Instant::now()` advanced by the caller's Duration with a total
    (non-panicking) addition: `now.checked_add(d).unwrap_or*(..)`. `now + d` panics for large d (tokio's own
    `timeout` saturates to 'far future'), which would turn a huge timeout into a panic instead of 'no deadline'."""
    dl = strip_wrappers(dl)
    calls, seen, work = [], set(), [dl]
    while work and len(seen) < 200:
        for t in sendpaths.subterms(strip_wrappers(work.pop())):
            if t[0] == "call" and t[1] not in seen:
                seen.add(t[1])
                calls.append((t, t[2] or ""))
                work.extend(tr.norm(a) for a in tr.call_args(t[1]))
    adds = [t for t, p in calls if p.endswith("Add>::add") or p.endswith("Add::add") or p.endswith("add_assign") or "as std::ops::Add" in p]
    run.require(not adds, "O10.1", "deadline-addition-total:%s" % fnname,
                "the absolute deadline of %s is computed with `Instant + Duration`, which panics on overflow: a very large caller timeout becomes a panic instead of an (effectively) unbounded wait" % fnname,
                "no panicking Instant + Duration in the deadline", loc=site.loc)
    nows = [t for t, p in calls if p.endswith("Instant::now")]
    chk = [t for t, p in calls if p.endswith("Instant::checked_add")]
    if adds:
        chk = adds
    if len(chk) != 1 or len(nows) != 1:
        return ("other", "deadline %s" % show(dl))
    a = [tr.norm(x) for x in tr.call_args(chk[0][1])]
    base = strip_wrappers(a[0])
    if not (base[0] == "call" and base[1] == nows[0][1]):
        return ("other", "deadline base %s" % show(base))
    return sp.resolve_to_root_param(site.body, a[1])


def _await_root(tr, poll_bb):
    fut = strip_wrappers(tr.norm(tr.awaited_future(poll_bb)))
    guard = 0
    while fut[0] == "call" and fn_path(tr.call_term(fut[1])) == sendpaths.INTO_FUTURE and guard < 4:
        fut = strip_wrappers(tr.norm(tr.call_args(fut[1])[0]))
        guard += 1
    return fut[1] if fut[0] == "call" else None


def error_mapping(run, f, sp, durations):
    tsites = {(s.body.name, s.bb) for s in sp.timeouts}
    n = 0
    for site, variant, flds, st in sp.errors:
        if variant != "Timeout":
            continue
        n += 1
        b = site.body
        fnname = site.root.split("::")[-1]
        ctx = sp.failure_context(site)
        form_a = bool(ctx) and ctx[0] == "map_err" and ctx[1] == "timeout" and (ctx[-1][0].name, ctx[2]) in tsites
        # form B: `match timeout(..).await { Ok(inner) => inner, Err(_) => Err(Error::Timeout{..}) }` - the same mapping written as a match
        form_b = bool(ctx) and ctx[0] == "guard" and ctx[1] == "timeout" and (b.name, ctx[2]) in tsites
        if not run.require(form_a or form_b, "O10.2", "timeout-error-context:%s" % fnname,
                           "Error::Timeout in %s is not constructed under the Elapsed outcome of the awaited tokio timeout (%s)" % (fnname, ctx[:2] if ctx else None),
                           "constructed under the Elapsed outcome of the awaited timeout (%s)" % ("map_err closure" if form_a else "Err arm of a match"), loc=site.loc):
            continue
        if form_a:
            p2 = b.local_ty(2) if b.arg_count >= 2 else None
            run.require(p2 is not None and p2.is_adt("tokio::time::error::Elapsed"), "O10.2", "closure-takes-elapsed:%s" % fnname,
                        "the closure's parameter is %s, not tokio's Elapsed" % p2, "closure parameter: Elapsed", loc=site.loc)
        else:
            run.ok("O10.2", "closure-takes-elapsed:%s" % fnname, "Err arm of the match on the timeout's Result<_, Elapsed>", loc=site.loc)
        tv = sp.resolve_to_root_param(b, flds.get("timeout"))
        run.require(tv[0] == "param" and durations.get(site.root) == tv[2], "O10.2", "timeout-field:%s" % fnname,
                    "Error::Timeout.timeout is %s, not the deadline parameter" % (show(tv) if isinstance(tv, tuple) else tv), "timeout field == the deadline parameter", loc=site.loc)
        if form_a:
            # the inner result passes through `?` unchanged
            par, cbb = ctx[-1]
            ptr = tracer_of(par)
            ret = norm_try(ptr, ptr.local(0))
            members = set(ret[1]) if ret[0] == "phi" else {ret}
            C = {m for m in members if m[0] in ("try_err", "try_ok") and strip_wrappers(m[1])[:2] == ("call", cbb)}
            kinds = {m[0] for m in C}
            run.require(members == C and kinds == {"try_err", "try_ok"}, "O10.2", "inner-result-unchanged:%s" % fnname,
                        "the result of %s is not `timeout(..).await.map_err(..)?` returned unchanged: %s" % (fnname, show(ret)),
                        "returns Err(Timeout) on Elapsed, otherwise the inner Result unchanged", loc=loc_of(par, cbb))
        else:
            btr = tracer_of(b)
            ret = btr.norm(btr.local(0))
            members = set(ret[1]) if ret[0] == "phi" else {ret}
            this_err = btr.norm(btr.rvalue(st["rv"]))
            good = len(members) == 2
            for m in members:
                m = strip_wrappers(m)
                is_err = m[0] == "agg" and m[1][:3] == ("adt", "std::result::Result", "Err") and strip_wrappers(m[2][0]) == this_err
                is_inner = m[0] == "field" and m[1] == 0 and m[2][0] == "downcast" and m[2][1] == "Ok" and m[2][2][0] == "await" and strip_wrappers(m[2][2][1])[:2] == ("call", ctx[2])
                good = good and (is_err or is_inner)
            run.require(good, "O10.2", "inner-result-unchanged:%s" % fnname,
                        "the result of %s is not {Elapsed => Err(Timeout), Ok(inner) => inner unchanged}: %s" % (fnname, show(ret)),
                        "returns Err(Timeout) on Elapsed, otherwise the inner Result unchanged", loc=site.loc)
    run.require(n >= 4, "O10.2", "timeout-error-floor", "only %d Error::Timeout constructions found" % n, "%d Error::Timeout constructions, all in Elapsed closures" % n)


def retryable(run, f):
    d = "error::Error::is_retryable"
    body = f.body(d)
    adt = f.adts.get("error::Error")
    if not run.require(body is not None and adt is not None, "O10.3", "is_retryable-present", "Error::is_retryable not found", "found"):
        return
    run.count_body(body)
    bad = []
    for v in adt["variants"]:
        shape = enum("error::Error", v["name"], *[sym(fl["name"]) for fl in v["fields"]])
        try:
            res = Interp(f).table(body, [("ref", shape)])
        except (mi.Unsupported, mi.Infeasible) as e:
            bad.append("cannot evaluate on %s: %s" % (v["name"], e))
            continue
        for p, val in res:
            if val != B(v["name"] == "Timeout"):
                bad.append("is_retryable(%s) = %s" % (v["name"], mi.show(val)))
    run.require(not bad, "O10.3", "is_retryable-table", "; ".join(bad), "true iff Timeout, over all %d variants" % len(adt["variants"]), loc=f.span(f.fns[d]["span"]).loc)
