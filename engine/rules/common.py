"""Shared helpers for rule modules."""
from cfg import CFG, callee
from prov import Tracer, fn_path

_cfg_cache = {}
_tr_cache = {}


def cfg_of(body, unwind=False, cancel=False):
    k = (body.f.path, body.name, unwind, cancel)
    c = _cfg_cache.get(k)
    if c is None:
        c = CFG(body, unwind=unwind, cancel=cancel)
        _cfg_cache[k] = c
    return c


def tracer_of(body):
    k = (body.f.path, body.name)
    t = _tr_cache.get(k)
    if t is None:
        t = Tracer(body)
        _tr_cache[k] = t
    return t


def live_calls(body):
    live = cfg_of(body, unwind=True, cancel=True).live
    for blk in body.calls():
        if blk.idx in live:
            yield blk


def all_calls(facts):
    """(body, block) for every reachable call terminator of every fn/closure body."""
    for b in facts.fn_bodies():
        for blk in live_calls(b):
            yield b, blk


def fn_of(blk):
    return blk.term.get("fn") or {}


def loc_of(body, blk_or_bb):
    blk = blk_or_bb if hasattr(blk_or_bb, "term") else body.blocks[blk_or_bb]
    return body.f.span(blk.term["span"]).loc


def short(defn):
    """Stable short anchor name for a body/def (no line numbers)."""
    return defn


def is_tokio_mpsc_sender_method(f, fn, chan=None):
    """fn dict of a call on tokio::sync::mpsc::Sender<X>; returns (method, chan) or None."""
    if fn.get("krate") != "tokio":
        return None
    d = fn.get("def", "")
    if "mpsc" not in d or "::Sender::" not in d or "Weak" in d or "Unbounded" in d:
        return None
    ta = [f.ty(t) for t in fn.get("targs", [])]
    c = chan_of(ta[0]) if ta else "other"
    return fn.get("name"), c


def chan_of(ty):
    import anchors
    nm = anchors.names(ty.f)
    if ty.k == "adt" and ty.defn == nm.control:
        return "ctrl"
    if ty.k == "adt" and ty.defn == nm.mailbox:
        return "mailbox"
    return "other"


def count_bodies(run, facts, bodies=None):
    for b in (bodies if bodies is not None else facts.fn_bodies()):
        run.count_body(b)


def crate_fn_bodies(facts):
    return list(facts.fn_bodies())
