"""C11 - identity is unique and stable; is_alive / upgrade tell the truth."""
import lifecycle
import sendpaths
import minterp as mi
from minterp import Interp, sym, free, B
from rules import c03, c07, c16
from rules.common import cfg_of, tracer_of, live_calls, fn_of, loc_of, all_calls
from rules.c13 import _static_of
from prov import strip_wrappers, strip_refs, show
from cfg import callee, const_int

LEVEL = "other"
TRUSTED = ["T2", "T7", "T8", "T9"]
NOT_DECIDED = ["the instant at which is_alive / upgrade flip relative to concurrent observers (tokio handle semantics, axiom T2); wrap-around of the 64-bit counter"]
EXPLANATION = (
    "Uniqueness: the id given to Identity::new in the spawn function is the result of fetch_add with a non-zero constant on a static "
    "atomic that no other body references, there is one Identity::new call and it feeds the one ActorRef::new (atomic RMW axiom). "
    "Stability: every construction of ActorRef / ActorWeak takes `id` from the parameter or self.id; identity() returns self.id; the "
    "erased handles forward (C16 rules re-evaluated). Truthfulness: the complete decision tables of ActorRef::is_alive (not closed(mailbox) "
    "and not closed(control)) and ActorWeak::is_alive (strong_count(mailbox) > 0 and strong_count(control) > 0), upgrade's table (C07 "
    "rule) and, for 'exactly while some strong reference exists', the runtime keeps no strong handle of its own while idle (C07 rules O7.1/O7.2); 'false once the JoinHandle resolved, then every send fails' follows from both receivers being dropped on every exit (C03 rule) "
    "plus T1/T2.")

AR = "actor_ref::ActorRef"
AW = "actor_ref::ActorWeak"


def run(run):
    for cfgname, f in run.for_configs():
        allocation(run, f)
        propagation(run, f)
        alive_tables(run, f)
        c07.upgrade_table(run, f)
        lc = lifecycle.get(f)
        if lc.body is not None:
            c03.receivers_die_with_actor(run, f, lc)
            # "upgrade returns a reference exactly while some strong reference (or queued message) still exists": the
            # runtime itself must not be such a reference while it waits for work, and spawn must keep none (C07 rules O7.1/O7.2)
            c07.no_strong_across_select(run, lc)
            c07.spawn_keeps_nothing(run, f, lc)
            # "... (or queued message) still exists": every kind of queued mailbox message - the stop marker included - owns a
            # strong ActorRef (C01 rules O1.1 / O1.6)
            from rules import sendrules
            sendrules.envelope_types(run, f, rule="O11.4")
            sendrules.stop_marker(run, f, sendpaths.get(f), rule="O11.4")
        # erased handles report the same identity: the identity/is_alive forwarders
        for d, fn in sorted(f.fns.items()):
            if fn.get("has_body") and fn.get("impl_trait") in c16.SIX and fn["name"] in ("identity", "is_alive") and fn.get("impl_self") is not None:
                c16.trait_method(run, f, d, fn, fn["impl_trait"], f.ty(fn["impl_self"]))


def allocation(run, f):
    sites = [(b, blk) for b, blk in all_calls(f) if callee(blk.term) == "Identity::new"]
    if not run.require(len(sites) == 1, "O11.1", "identity-new-sites", "Identity::new is called at %d sites" % len(sites), "one Identity::new call (the spawn function)"):
        return
    b, blk = sites[0]
    run.count_body(b)
    tr = tracer_of(b)
    a0 = strip_wrappers(tr.norm(tr.call_args(blk.idx)[0]))
    hb = b
    # the allocation may live in a small crate-local helper (`fn next_actor_id() -> u64`)
    if a0[0] == "call" and f.body(a0[2]) is not None and not f.fns.get(a0[2], {}).get("async"):
        hb = f.body(a0[2])
        run.count_body(hb)
        tr = tracer_of(hb)
        a0 = strip_wrappers(tr.norm(tr.local(0)))
    okf = a0[0] == "call" and a0[2].startswith("std::sync::atomic::Atomic") and a0[2].endswith("fetch_add")
    static = None
    inc = None
    if okf:
        t = hb.blocks[a0[1]].term
        pl = t["args"][0].get("move") or t["args"][0].get("copy")
        static = _static_of(hb, tr, pl) if pl else None
        inc = const_int(t["args"][1])
    run.require(okf and static is not None and inc not in (None, 0), "O11.1", "id-from-atomic-counter",
                "the actor id is %s (static %s, increment %s), not the result of one atomic fetch_add(non-zero constant) on a static atomic (a load/compute/store sequence is not atomic: two concurrent spawns can get the same id)" % (show(a0), static, inc),
                "id = %s.fetch_add(%s)" % (static, inc), loc=loc_of(b, blk))
    if static:
        users = set()
        for bd in f.fn_bodies():
            for bk in bd.blocks:
                for st in bk.stmts:
                    if st["k"] == "assign" and "use" in st["rv"] and "const" in st["rv"]["use"] and st["rv"]["use"]["const"].get("static") == static:
                        users.add(bd.name)
        run.require(users == {hb.name}, "O11.1", "counter-private", "the id counter is referenced from %s" % sorted(users), "counter referenced only from %s" % hb.name)
        sd = [s for s in f.statics if s["def"] == static]
        import anchors
        run.require(len(sd) == 1 and "Atomic" in anchors.peel_newtype(f, f.ty(sd[0]["ty"])).s and not sd[0]["mut"], "O11.1", "counter-is-atomic", "the id counter is not an immutable static atomic", "static %s: %s" % (static, f.ty(sd[0]["ty"]).s if sd else "?"))
    # feeds the one ActorRef built from scratch (private constructors are inlined: the aggregate is in this body)
    tr = tracer_of(b)
    fresh = []
    for bk in b.blocks:
        for st in bk.stmts:
            if st["k"] == "assign" and "agg" in st["rv"] and st["rv"].get("adt") == AR and "id" in st["rv"]["fields"]:
                t = strip_wrappers(tr.norm(tr.operand(st["rv"]["ops"][st["rv"]["fields"].index("id")])))
                if t == ("call", blk.idx, "Identity::new"):
                    fresh.append(f.span(st["span"]).loc)
    run.require(len(fresh) == 1, "O11.1", "identity-into-actorref", "the allocated Identity goes into %d ActorRef values built by the spawn function (expected one)" % len(fresh),
                "ActorRef { id: the allocated Identity, .. } built once in the spawn function")


def propagation(run, f):
    n = 0
    for bd in f.fn_bodies():
        tr = tracer_of(bd)
        for bk in bd.blocks:
            for st in bk.stmts:
                if st["k"] == "assign" and "agg" in st["rv"] and st["rv"].get("adt") in (AR, AW):
                    n += 1
                    rv = st["rv"]
                    i = rv["fields"].index("id") if "id" in rv["fields"] else None
                    t = strip_wrappers(tr.norm(tr.operand(rv["ops"][i]))) if i is not None else None
                    src_adt = None
                    good = False
                    bd0 = bd
                    if t is not None and t[0] in ("upvar", "field", "deref"):
                        # built inside a closure: the captured value, in the enclosing body
                        bd, t = sendpaths.get(f).lift(bd0, t)
                        t = strip_wrappers(t)
                    if t is not None:
                        if t[0] == "call" and t[2] == "Identity::new" and rv["adt"] == AR:
                            good = True         # the spawn function's fresh handle (uniqueness of that site: O11.1)
                        if t[0] == "param" and f.ty(bd.locals[t[1]]["ty"]).is_adt("Identity"):
                            good = True
                        elif t[0] == "field" and strip_refs(t[2])[0] == "param":
                            pty = f.ty(bd.locals[strip_refs(t[2])[1]]["ty"]).peel_refs()
                            a = f.adts.get(pty.defn) if pty.k == "adt" else None
                            if a and pty.defn in (AR, AW) and a["variants"][0]["fields"][t[1]]["name"] == "id":
                                good = True
                    bd = bd0
                    run.require(good, "O11.2", "id-propagated:%s:%s" % (rv["adt"].split("::")[-1], (bd.root or bd.defn).split("::")[-1]),
                                "%s built in %s with id %s" % (rv["adt"], bd.name, show(t) if t else None), "id copied from the parameter / self.id", loc=f.span(st["span"]).loc)
    run.require(n >= 5, "O11.2", "construction-floor", "only %d ActorRef/ActorWeak constructions found" % n, "%d handle construction sites" % n)
    for adt in (AR, AW):
        d = "%s::<T>::identity" % adt
        b = f.body(d)
        if not run.require(b is not None, "O11.2", "identity-getter:%s" % adt, "%s not found" % d, "found"):
            continue
        tr = tracer_of(b)
        t = strip_wrappers(tr.norm(tr.local(0)))
        a = f.adts[adt]["variants"][0]["fields"]
        good = t[0] == "field" and a[t[1]]["name"] == "id" and strip_refs(t[2]) == ("param", 1) and not list(live_calls(b))
        run.require(good, "O11.2", "identity-returns-id:%s" % adt.split("::")[-1], "%s returns %s" % (d, show(t)), "returns self.id")


def alive_tables(run, f):
    def bi_closed(it, fn, args, path, body, blk, depth):
        return [(path, free("closed(%s)" % mi.show(mi._peel(args[0]))))]

    def bi_count(it, fn, args, path, body, blk, depth):
        return [(path, ("symint", "count(%s)" % mi.show(mi._peel(args[0]))))]

    def bi_upgrade(it, fn, args, path, body, blk, depth):
        nm = mi.show(mi._peel(args[0]))
        key = "upgrade(%s)" % nm
        alts = [mi.NONE, mi.some(sym("strong(%s)" % nm))]
        if key in path.assume:
            return [(path, [x for x in alts if mi.show(x) == path.assume[key]][0])]
        out = []
        for alt in alts:
            p2 = path.fork()
            p2.assume[key] = mi.show(alt)
            out.append((p2, alt))
        return out

    for adt, d, prim in ((AR, AR + "::<T>::is_alive", "closed"), (AW, AW + "::<T>::is_alive", "count")):
        b = f.body(d)
        if not run.require(b is not None, "O11.3", "is_alive-present:%s" % adt, "%s not found" % d, "found"):
            continue
        run.count_body(b)
        flds = f.adts[adt]["variants"][0]["fields"]
        import anchors
        chan_idx = [p_ for p_, _, _ in anchors.field_paths(f, adt, lambda ty: ty.k == "adt" and ty.defn.startswith("tokio::sync::mpsc") and "Sender" in ty.defn)]
        it = Interp(f, builtins={"tokio::sync::mpsc::Sender::<T>::is_closed": bi_closed, "tokio::sync::mpsc::WeakSender::<T>::strong_count": bi_count,
                                 "tokio::sync::mpsc::WeakSender::<T>::upgrade": bi_upgrade})
        try:
            res = it.concretize_bool(it.table(b, [("ref", sym("self"))]))
        except (mi.Unsupported, mi.Infeasible) as e:
            run.fail("O11.3", "is_alive-table:%s" % adt.split("::")[-1], "cannot compute the decision table: %s" % e)
            continue
        bad = []
        keys = set()
        for p, v in res:
            if p.effects:
                bad.append("side effects %s" % p.effects[:2])
            if prim == "closed":
                ks = {k: val for k, val in p.assume.items() if k.startswith("closed(")}
                want = all(not val for val in ks.values()) and len(ks) == 2
                keys |= set(ks)
                # short-circuit: a path that saw one closed channel is false
                if any(val for val in ks.values()):
                    want = False
                elif len(ks) < 2:
                    bad.append("returns without consulting both channels: %s" % ks)
            else:
                ks = {k: val for k, val in p.assume.items() if k.startswith("Gt(")}
                keys |= set(ks)
                if any(not val for val in ks.values()):
                    want = False
                elif len(ks) < 2:
                    want = None
                    bad.append("returns without consulting both channels: %s" % ks)
                else:
                    want = True
            if want is not None and v != B(want):
                bad.append("is_alive = %s under %s" % (mi.show(v), ks))
        exp_keys = {("closed(?self.%s)" % i) if prim == "closed" else ("Gt(?count(?self.%s),0)" % i) for i in chan_idx}
        if keys != exp_keys:
            bad.append("consults %s, expected %s" % (sorted(keys), sorted(exp_keys)))
        run.require(not bad and len(res) >= 3, "O11.3", "is_alive-table:%s" % adt.split("::")[-1], "; ".join(bad[:3]) or "table too small",
                    "%d paths: true iff both channels %s" % (len(res), "are open" if prim == "closed" else "have a strong sender"), loc=f.span(f.fns[d]["span"]).loc)
        run.sample({"rule": "O11.3", "config": run.cur_config, "fn": d, "paths": [(dict(p.assume), mi.show(v)) for p, v in res]})
