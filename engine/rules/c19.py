"""C19 - macro-generated code means what the hand-written code would (translation validation)."""
import hashlib
import os
import shutil
import subprocess
import sys
import time

import extract
from facts import Facts
from rules.common import cfg_of, tracer_of, live_calls, fn_of, loc_of, all_calls
from prov import strip_wrappers, strip_refs, show, fn_path
from cfg import callee
from skeleton import span_is_logging

sys.path.insert(0, os.path.join(extract.VERIF, "corpus"))
import gen  # noqa: E402

LEVEL = "translation_validation"
TRUSTED = ["T8"]
QUICK_CONFIGS = [()]
NOT_DECIDED = ["programs outside the generated grammar (the corpus is finite: return-type spelling x attribute x actor shape x message shape x extra methods x derive/manual)", "the text of the log messages"]
EXPLANATION = (
    "Translation validation of the proc macros: a corpus of handler programs is generated from the grammar of C19 (quick: a seeded "
    "sample covering every return-type spelling x attribute option; thorough: the full product), compiled against the real macros of "
    "/repo under the extractor (type-checked, never executed), and every expansion is validated statically against an independent "
    "oracle table: the generated `impl Message<M> for A` has Reply equal to the method's declared return type (compiler's type "
    "equality), `handle` is a verbatim forwarder to the user's method with (self, msg, actor_ref) awaited, on_tell_result is overridden "
    "iff the table says so and its body only logs under the Err discriminant of its first parameter, the user's method is still "
    "present; derive(Actor) gives Args = Self, Error = Infallible and on_start returning Ok(<its argument>). Negative programs must fail "
    "to compile with the macro's own diagnostic. The runtime half is decided in /repo: handle_message calls on_tell_result exactly once, "
    "only when there is no reply channel, with a reference to the handler's result.")


def corpus_dir():
    return os.path.join(extract.CACHE, "corpus")


def build_and_extract(progs, repo, log):
    """Writes the corpus crate, compiles it under the extractor, returns (Facts, oracle rows)."""
    srcs = []
    rows = []
    for i, spec in enumerate(progs):
        s, o = gen.program(i, spec)
        srcs.append(s)
        rows.append(o)
    lib = "#![allow(clippy::all)]\n" + "\n".join(srcs)
    extract.build_driver()
    h = hashlib.sha256()
    h.update(lib.encode())
    h.update(extract.tree_hash(repo).encode())
    key = h.hexdigest()[:16]
    base = os.path.join(corpus_dir(), "facts", key)
    fpath = os.path.join(base, "corpus.json")
    if os.path.exists(fpath):
        try:
            os.utime(base, None)      # LRU
        except OSError:
            pass
    if not os.path.exists(fpath):
        work = os.path.join(corpus_dir(), "work-%d" % os.getpid())
        shutil.rmtree(work, ignore_errors=True)
        os.makedirs(os.path.join(work, "src"))
        write_manifest(work, repo, "corpus")
        with open(os.path.join(work, "src", "lib.rs"), "w") as fh:
            fh.write(lib)
        tmp = base + ".tmp%d" % os.getpid()
        shutil.rmtree(tmp, ignore_errors=True)
        os.makedirs(tmp)
        r = cargo_check(work, tmp, "corpus")
        if r.returncode != 0 or not os.path.exists(os.path.join(tmp, "corpus.json")):
            shutil.rmtree(tmp, ignore_errors=True)
            shutil.rmtree(work, ignore_errors=True)
            shutil.rmtree(work + "-repo", ignore_errors=True)
            return None, rows, r.stdout[-3000:]
        os.makedirs(os.path.dirname(base), exist_ok=True)
        try:
            os.rename(tmp, base)
        except OSError:
            shutil.rmtree(tmp, ignore_errors=True)
        shutil.rmtree(work, ignore_errors=True)
        shutil.rmtree(work + "-repo", ignore_errors=True)
    return Facts(fpath), rows, ""


def fresh_repo_copy(work, repo):
    """cargo decides freshness of path dependencies by mtime; to be independent of how /repo was
    edited (a tool that preserves mtimes would leave a stale proc-macro in the cache), the corpus
    is compiled against a fresh copy of the two crates, at a per-run path."""
    dst = work.rstrip("/") + "-repo"        # sibling of the corpus crate (a nested copy would be a nested workspace)
    shutil.rmtree(dst, ignore_errors=True)
    os.makedirs(dst)
    for item in ("Cargo.toml", "Cargo.lock", "README.md", "src", "rsactor-derive", "tests"):
        sp = os.path.join(repo, item)
        if os.path.isdir(sp):
            shutil.copytree(sp, os.path.join(dst, item), ignore=shutil.ignore_patterns("target", ".git"), copy_function=shutil.copyfile)
        elif os.path.exists(sp):
            shutil.copyfile(sp, os.path.join(dst, item))
    return dst


def _target(kind):
    base = os.environ.get("RSAV_TARGET_DIR")
    return (base + "-" + kind) if base else os.path.join(extract.CACHE, "target-" + kind)


def gc_target(limit_gb=3.0):
    td = _target("corpus")
    try:
        out = subprocess.run(["du", "-sk", td], stdout=subprocess.PIPE, text=True).stdout.split()
        if out and int(out[0]) > limit_gb * 1024 * 1024:
            extract.remove_target_if_idle(td)
    except Exception:
        pass


def gc_corpus_facts(keep=12, min_age=3600):
    """The corpus fact files are keyed by (corpus text, tree hash): one per analysed tree. Keep the most recently used."""
    root = os.path.join(corpus_dir(), "facts")
    try:
        ds = sorted((os.path.getmtime(os.path.join(root, d)), d) for d in os.listdir(root))
    except OSError:
        return
    now = time.time()
    for mt, d in ds[:-keep]:
        if now - mt > min_age:
            shutil.rmtree(os.path.join(root, d), ignore_errors=True)


def write_manifest(work, repo, name):
    repo = fresh_repo_copy(work, repo)
    with open(os.path.join(work, "Cargo.toml"), "w") as fh:
        fh.write("[package]\nname = \"%s\"\nversion = \"0.0.0\"\nedition = \"2021\"\n\n[workspace]\n\n[dependencies]\n"
                 "rsactor = { path = \"%s\" }\ntokio = { version = \"1\", features = [\"macros\", \"rt-multi-thread\", \"sync\", \"time\"] }\n"
                 "tracing = \"0.1\"\nanyhow = \"1.0\"\n" % (name, repo))
    lock = os.path.join(repo, "Cargo.lock")
    if os.path.exists(lock):
        shutil.copy(lock, os.path.join(work, "Cargo.lock"))


def cargo_check(work, out_dir, crates):
    env = extract._env()
    env["RSAV_OUT"] = out_dir
    env["RSAV_CRATES"] = crates
    env["CARGO_INCREMENTAL"] = "0"
    env["RUSTFLAGS"] = "-Zmir-opt-level=0 -Awarnings"
    env["RUSTC_WORKSPACE_WRAPPER"] = extract.DRIVER
    env["CARGO_TARGET_DIR"] = _target("corpus")
    nonce = "%d_%d" % (os.getpid(), int(time.time() * 1000))
    return subprocess.run(["cargo", "+nightly", "rustc", "--offline", "-q", "--lib", "--profile", "check", "--", "--cfg", "rsav_nonce=\"%s\"" % nonce],
                          cwd=work, env=env, stdout=subprocess.PIPE, stderr=subprocess.STDOUT, text=True)


def run(run):
    repo = extract.REPO
    progs = gen.select(run.tier, run.seed)
    t0 = time.time()
    gc_target()
    gc_corpus_facts()
    cf, rows, err = build_and_extract(progs, repo, None)
    if cf is None:
        run.fail("O19.0", "corpus-compiles", "the generated corpus does not compile against the macros of /repo (a valid handler program is rejected or expands to ill-typed code):\n%s" % err)
        return
    run.ok("O19.0", "corpus-compiles", "%d generated programs type-check against the real macros (%.1fs)" % (len(rows), time.time() - t0))
    disagreements = 0
    for row in rows:
        disagreements += validate_program(run, cf, row)
    run.extra["programs"] = len(rows)
    run.extra["disagreements_checked"] = len(rows) * 6
    run.extra["disagreements_found"] = disagreements
    run.extra["exhaustive"] = run.tier == "thorough"
    run.extra["corpus_space"] = len(gen.all_programs())
    negatives(run, repo)
    if run.tier == "thorough":
        in_repo_uses(run, repo)
    # runtime half, on the facts of /repo itself
    for cfgname, f in run.for_configs():
        runtime_half(run, f)


def extract_tests_and_examples(repo):
    """Facts of every test / example crate of /repo (all features), through a uniquely named
    symlink to the driver (the wrapper path is part of cargo's fingerprint, so this forces the
    workspace crates through the extractor without deleting anything)."""
    import glob
    out = os.path.join(corpus_dir(), "inrepo-%d" % os.getpid())
    shutil.rmtree(out, ignore_errors=True)
    os.makedirs(out)
    wdir = os.path.join(out, "w")
    os.makedirs(wdir)
    link = os.path.join(wdir, "rsav-extract")
    os.symlink(extract.DRIVER, link)
    env = extract._env()
    env.update({"RSAV_OUT": out, "RSAV_CRATES": "*", "CARGO_INCREMENTAL": "0", "RUSTFLAGS": "-Zmir-opt-level=0 -Awarnings",
                "RUSTC_WORKSPACE_WRAPPER": link, "CARGO_TARGET_DIR": _target("inrepo")})
    r = subprocess.run(["cargo", "+nightly", "check", "--offline", "-q", "--tests", "--examples", "--all-features"], cwd=repo, env=env,
                       stdout=subprocess.PIPE, stderr=subprocess.STDOUT, text=True)
    files = sorted(glob.glob(os.path.join(out, "*.json")))
    return out, files, r


def _syntactic_table(repo, cf, fn):
    """Independent oracle from the source text of the user's method: (attribute option, is the
    declared return type syntactically `...::Result<..>`)."""
    import re
    sp = cf.span(fn["span"])
    path = sp.file if os.path.isabs(sp.file) else os.path.join(repo, sp.file)
    try:
        lines = open(path).read().split("\n")
    except OSError:
        return None
    i = sp.line - 1
    attr = None
    for j in range(i, max(-1, i - 8), -1):
        m = re.search(r"#\[\s*handler\s*(\(([^)]*)\))?\s*\]", lines[j]) if j < len(lines) else None
        if m:
            attr = (m.group(2) or "").replace(" ", "")
            break
        if j < i and re.search(r"\bfn\b", lines[j]):
            break
    if attr is None:
        return None
    sig = " ".join(lines[i:i + 12])
    sig = sig[:sig.index("{")] if "{" in sig else sig
    ret = sig.split("->", 1)[1].strip() if "->" in sig else ""
    ret = re.sub(r"\bwhere\b.*", "", ret).strip()
    head = ret.split("<", 1)[0].strip()
    is_res = head.split("::")[-1].strip() == "Result"
    opts = set(x for x in attr.split(",") if x)
    if "no_log" in opts:
        expect = False
    elif "result" in opts:
        expect = True
    else:
        expect = is_res
    return {"attr": attr or "-", "ret": ret, "expect_override": expect}


def in_repo_uses(run, repo):
    """Thorough tier: the same validation over every #[message_handlers] expansion in tests/ and
    examples/ of /repo, with an oracle read from the source text of the user's method."""
    out, files, r = extract_tests_and_examples(repo)
    try:
        if not run.require(r.returncode == 0 and len(files) >= 10, "O19.7", "in-repo-extraction", "cannot extract tests/examples of /repo: %s" % r.stdout[-400:], "%d test/example crates extracted" % len(files)):
            return
        total = 0
        for fp in files:
            cf = Facts(fp)
            for im in cf.impls:
                tr_ = im.get("trait") or ""
                if not tr_.endswith("::Message") and tr_ != "actor::Message":
                    continue
                if not any("message_handlers" in m for m in cf.span(im["span"]).macros):
                    continue        # hand-written impl
                items = {it["name"]: it for it in im["items"]}
                hb = [b for b in cf.fn_bodies() if b.is_coroutine and (b.root or "") == items.get("handle", {}).get("def")]
                if len(hb) != 1:
                    run.fail("O19.7", "in-repo-handle-body:%s" % cf.crate, "no unique handle body for a generated impl in %s" % cf.crate)
                    continue
                b = hb[0]
                tr = tracer_of(b)
                ret = strip_wrappers(tr.norm(tr.local(0)))
                okh = ret[0] == "await"
                meth = None
                if okh:
                    c = strip_wrappers(ret[1])
                    if c[0] == "call" and fn_path(tr.call_term(c[1])) == "core::future::into_future::IntoFuture::into_future":
                        c = strip_wrappers(tr.norm(tr.call_args(c[1])[0]))
                    okh = c[0] == "call"
                    if okh:
                        meth = c[2]
                        args = [strip_wrappers(tr.norm(a)) for a in tr.call_args(c[1])]
                        okh = [a[2] if a[0] == "upvar" else None for a in args] == ["self", "msg", "actor_ref"]
                mfn = cf.fns.get(meth) if meth else None
                total += 1
                key = "%s:%s" % (cf.crate, (meth or "?").split("::")[-1])
                if not run.require(okh and mfn is not None, "O19.7", "in-repo-forwarder", "%s: generated handle() is not `self.<method>(msg, actor_ref).await`" % key, "forwarder", nontrivial=False):
                    continue
                reply = cf.ty(items["Reply"]["ty"]).s if "Reply" in items and "ty" in items["Reply"] else None
                out_s = cf.ty(mfn["output"]).s
                run.require(reply is not None and ("Output = " + reply) in out_s, "O19.7", "in-repo-reply-type", "%s: Reply = %s but the method returns %s" % (key, reply, out_s), "Reply == return type", nontrivial=False)
                tab = _syntactic_table(repo, cf, mfn)
                if tab is not None:
                    has = "on_tell_result" in items
                    run.require(has == tab["expect_override"], "O19.7", "in-repo-table",
                                "%s (#[handler(%s)] -> %s): on_tell_result %s generated, table says it %s be" % (key, tab["attr"], tab["ret"], "is" if has else "is not", "should" if tab["expect_override"] else "should not"),
                                "override as in the table", nontrivial=False)
        run.require(total >= 100, "O19.7", "in-repo-floor", "only %d generated impls found in tests/examples" % total, "%d generated Message impls in tests/examples validated" % total)
        run.extra["in_repo_generated_impls"] = total
    finally:
        shutil.rmtree(out, ignore_errors=True)


def _impl_for(cf, mod, trait_suffix):
    out = []
    for im in cf.impls:
        tr = im.get("trait") or ""
        if tr.endswith(trait_suffix) and cf.ty(im["self_ty"]).s.startswith(mod + "::"):
            out.append(im)
    return out


def validate_handler(run, cf, mod, key, tag, h):
    bad = 0
    ims = [im for im in _impl_for(cf, mod, "::Message") if len(im.get("trait_targs", [])) > 1 and cf.ty(im["trait_targs"][1]).s.replace(mod + "::", "") == h["msg_ty"]]
    if not run.require(len(ims) == 1, "O19.1", "message-impl:%s" % tag, "%s: %d `impl Message<%s>` generated" % (key, len(ims), h["msg_ty"]), "one impl Message<%s> for A" % h["msg_ty"]):
        return 1, None, None
    im = ims[0]
    items = {it["name"]: it for it in im["items"]}
    # the user's method and its declared return type
    meth = [d for d, fn in cf.fns.items() if d.startswith(mod + "::") and fn["name"] == h["name"] and not fn.get("impl_trait")]
    if not run.require(len(meth) == 1, "O19.1", "user-method-kept:%s" % tag, "%s: the handler method is no longer present after expansion" % key, "user's method still present"):
        return 1, None, None
    mfn = cf.fns[meth[0]]
    out_s = cf.ty(mfn["output"]).s
    reply = cf.ty(items["Reply"]["ty"]).s if "Reply" in items and "ty" in items["Reply"] else None
    ok_reply = reply is not None and ("Output = %s>" % reply) in out_s.replace("> + ", ">")  or (reply is not None and out_s.endswith("Output = %s>" % reply))
    if not ok_reply and reply is not None:
        ok_reply = ("Output = " + reply) in out_s
    if not run.require(ok_reply, "O19.1", "reply-type:%s" % tag, "%s: Reply = %s but the method returns %s" % (key, reply, out_s), "Reply == declared return type (%s)" % reply):
        bad += 1
    targ = cf.ty(im["trait_targs"][1]).s if len(im.get("trait_targs", [])) > 1 else None
    want_m = mod + "::" + h["msg_ty"].replace("<u8>", "<u8>")
    run.require(targ is not None and targ.replace(mod + "::", "") == h["msg_ty"], "O19.1", "message-type:%s" % tag, "%s: impl Message<%s>, expected %s" % (key, targ, h["msg_ty"]), "Message<%s>" % h["msg_ty"])
    # handle is a verbatim forwarder
    hb = [b for b in cf.fn_bodies() if b.is_coroutine and (b.root or "") == items["handle"]["def"]] if "handle" in items else []
    okh = len(hb) == 1
    if okh:
        b = hb[0]
        run.count_body(b)
        tr = tracer_of(b)
        ret = strip_wrappers(tr.norm(tr.local(0)))
        okh = ret[0] == "await"
        if okh:
            c = strip_wrappers(ret[1])
            if c[0] == "call" and fn_path(tr.call_term(c[1])) == "core::future::into_future::IntoFuture::into_future":
                c = strip_wrappers(tr.norm(tr.call_args(c[1])[0]))
            okh = c[0] == "call" and c[2] == meth[0]
            if okh:
                args = [strip_wrappers(tr.norm(a)) for a in tr.call_args(c[1])]
                names = [a[2] if a[0] == "upvar" else None for a in args]
                okh = names == ["self", "msg", "actor_ref"]
                others = [callee(k.term) for k in live_calls(b) if callee(k.term) != meth[0] and not (fn_path(k.term) or "").startswith("core::")]
                okh = okh and not others
    if not run.require(okh, "O19.2", "handle-forwards:%s" % tag, "%s: generated handle() is not `self.h(msg, actor_ref).await`" % key, "handle() == self.h(msg, actor_ref).await"):
        bad += 1
    # on_tell_result override iff the table says so
    has = "on_tell_result" in items
    if not run.require(has == h["expect_override"], "O19.3", "on_tell_result-table:%s" % tag,
                       "%s: on_tell_result %s generated but the documented table says it %s be" % (key, "is" if has else "is not", "should" if h["expect_override"] else "should not"),
                       "override %s, as the table says" % ("generated" if has else "absent")):
        bad += 1
    if has:
        ob = cf.body(items["on_tell_result"]["def"])
        oko = ob is not None
        if oko:
            run.count_body(ob)
            cfg = cfg_of(ob)
            tr = tracer_of(ob)
            # find the Err arm of the switch on discriminant(*param1)
            err_arm = None
            for blk in ob.blocks:
                if blk.term["k"] == "switch" and blk.idx in cfg.live:
                    op = blk.term["discr"]
                    pl = op.get("copy") or op.get("move")
                    if pl is not None and not pl["p"]:
                        ds = tr.defs.get(pl["l"], [])
                        if len(ds) == 1 and ds[0][0] == "assign" and "discr" in ds[0][3]:
                            subj = strip_refs(tr.norm(tr.place(ds[0][3]["discr"])))
                            if subj == ("param", 1) and not span_is_logging(cf, blk.term["span"]):
                                for v, tgt in blk.term["arms"]:
                                    if int(v) == 1:
                                        err_arm = tgt
            calls = [k for k in live_calls(ob) if not k.cleanup]
            outside = [callee(k.term) for k in calls if err_arm is None or not (k.idx == err_arm or cfg.dominates(err_arm, k.idx))]
            effects = [callee(k.term) for k in calls if not span_is_logging(cf, k.term["span"]) and not (fn_path(k.term) or "").startswith(("core::fmt", "alloc::fmt", "core::any"))
                       and callee(k.term) not in ("rsactor::ActorRef::<T>::identity",) and fn_of(k).get("name") != "identity"]
            logs = [k for k in calls if span_is_logging(cf, k.term["span"])]
            oko = err_arm is not None and not outside and not effects and len(logs) >= 1
        if not run.require(oko, "O19.3", "on_tell_result-body:%s" % tag, "%s: generated on_tell_result does something other than logging under Err" % key, "logs only under Err(e), nothing else"):
            bad += 1
    return bad, reply, has


def validate_program(run, cf, row):
    mod = row["module"]
    key = "%s[%s|%s|%s|%s|%s|%s]" % (mod, row["ret"], row["attr"], row["actor"], row["msg"], "extra" if row["extra"] else "-", row["actor_impl"])
    bad = 0
    handlers = row.get("handlers") or [{"name": "h", "msg_ty": row["msg_ty"], "ret": row["ret"], "attr": row["attr"], "expect_override": row["expect_override"]}]
    n_impls = len(_impl_for(cf, mod, "::Message"))
    if not run.require(n_impls == len(handlers), "O19.1", "message-impl:%s|%s" % (row["ret"], row["attr"]), "%s: %d `impl Message` generated for %d handler(s)" % (key, n_impls, len(handlers)), "one impl Message<M> per handler"):
        return 1
    reply = has = None
    for pos, h in enumerate(handlers):
        tag = "%s|%s" % (h["ret"], h["attr"]) if len(handlers) == 1 else "%s|%s@%d-of[%s]" % (h["ret"], h["attr"], pos, row["attr"])
        b_, reply, has = validate_handler(run, cf, mod, key, tag, h)
        bad += b_
    # derive(Actor)
    if row["actor_impl"] == "derive":
        ais = _impl_for(cf, mod, "::Actor")
        okd = len(ais) == 1
        if okd:
            it = {x["name"]: x for x in ais[0]["items"]}
            self_s = cf.ty(ais[0]["self_ty"]).s
            okd = cf.ty(it["Args"]["ty"]).s == self_s and cf.ty(it["Error"]["ty"]).s == "std::convert::Infallible"
            sb = [b for b in cf.fn_bodies() if b.is_coroutine and (b.root or "") == it["on_start"]["def"]]
            if okd and len(sb) == 1:
                tr = tracer_of(sb[0])
                r = strip_wrappers(tr.norm(tr.local(0)))
                okd = r[0] == "agg" and r[1][:3] == ("adt", "std::result::Result", "Ok") and strip_refs(r[2][0])[0] == "upvar" and strip_refs(r[2][0])[2] == "args" \
                    and not [k for k in live_calls(sb[0]) if not k.cleanup]
            else:
                okd = False
        if not run.require(okd, "O19.4", "derive-actor:%s" % row["actor"], "%s: derive(Actor) does not yield Args=Self, Error=Infallible, on_start = Ok(args)" % key, "Args = Self, Error = Infallible, on_start returns Ok(args)"):
            bad += 1
    if len(run.samples) < 6:
        run.sample({"program": key, "reply": reply, "override": has, "oracle_override": handlers[-1]["expect_override"]})
    return bad


def negatives(run, repo):
    work = os.path.join(corpus_dir(), "neg-%d" % os.getpid())
    items = [(n, gen.negative_source(b), d) for n, b, d in gen.NEGATIVES] + [(gen.NEG_DERIVE[0], "#![allow(dead_code)]\n" + gen.NEG_DERIVE[1], gen.NEG_DERIVE[2])]
    try:
        shutil.rmtree(work, ignore_errors=True)
        os.makedirs(os.path.join(work, "src"))
        write_manifest(work, repo, "corpusneg")
        outd = os.path.join(work, "out")
        os.makedirs(outd)
        # a compiling twin first (so that a broken path / setup cannot make every negative "fail")
        with open(os.path.join(work, "src", "lib.rs"), "w") as fh:
            fh.write(gen.negative_source("#[handler]\n        pub async fn h(&mut self, _m: M, _r: &ActorRef<Self>) -> u32 { 1 }"))
        r = cargo_check(work, outd, "none")
        if not run.require(r.returncode == 0, "O19.5", "negative-twin-compiles", "the positive twin of the negative programs does not compile: %s" % r.stdout[-600:], "positive twin compiles"):
            return
        for name, src, diag in items:
            with open(os.path.join(work, "src", "lib.rs"), "w") as fh:
                fh.write(src)
            r = cargo_check(work, outd, "none")
            run.require(r.returncode != 0 and diag in r.stdout, "O19.5", "negative:%s" % name,
                        "invalid program `%s` %s" % (name, "compiles" if r.returncode == 0 else "fails without the macro's diagnostic %r: %s" % (diag, r.stdout[-300:])),
                        "rejected with %r" % diag)
    finally:
        shutil.rmtree(work, ignore_errors=True)
        shutil.rmtree(work + "-repo", ignore_errors=True)


def runtime_half(run, f):
    cands = [b for b in f.fn_bodies() if b.is_coroutine and (b.root or "").endswith("PayloadHandler<A>>::handle_message")]
    if not run.require(len(cands) == 1, "O19.6", "payloadhandler-body", "cannot find handle_message", "found"):
        return
    b = cands[0]
    run.count_body(b)
    cfg = cfg_of(b)
    tr = tracer_of(b)
    otr = [k for k in live_calls(b) if fn_path(k.term) == "rsactor::actor::Message::on_tell_result"]
    if not run.require(len(otr) == 1, "O19.6", "on_tell_result-call-sites", "on_tell_result is called at %d sites in handle_message" % len(otr), "one call site"):
        return
    k = otr[0]
    # the switch on the reply channel option
    none_arm = some_arm = None
    for blk in b.blocks:
        if blk.term["k"] == "switch" and blk.idx in cfg.live:
            op = blk.term["discr"]
            pl = op.get("copy") or op.get("move")
            if pl is None or pl["p"]:
                continue
            ds = tr.defs.get(pl["l"], [])
            if len(ds) == 1 and ds[0][0] == "assign" and "discr" in ds[0][3]:
                subj = strip_refs(tr.norm(tr.place(ds[0][3]["discr"])))
                if subj[0] == "upvar" and subj[2] == "reply_channel":
                    arms = {int(v): tgt for v, tgt in blk.term["arms"]}
                    some_arm = arms.get(1, blk.term["otherwise"])
                    none_arm = arms.get(0, blk.term["otherwise"])
    ok_ = none_arm is not None and some_arm is not None and none_arm != some_arm and (k.idx == none_arm or cfg.dominates(none_arm, k.idx)) and k.idx not in cfg.reachable_from(some_arm)
    run.require(ok_, "O19.6", "on_tell_result-only-for-tell", "on_tell_result is not called exactly on the no-reply-channel branch", "called only when reply_channel is None (tell), never for ask", loc=loc_of(b, k))
    rets = cfg.exits(("return",))
    every = not cfg.in_cycle(k.idx) and none_arm is not None and all((k.idx in cfg.reachable_from(none_arm)) for _ in [0]) and \
        not (set(rets) & cfg.reachable_from(none_arm, avoid={k.idx}))
    run.require(every, "O19.6", "on_tell_result-exactly-once", "a tell can complete without on_tell_result being invoked (or it is invoked in a loop)", "every tell path calls it exactly once", loc=loc_of(b, k))
    a0 = strip_refs(tr.norm(tr.call_args(k.idx)[0]))
    hs = [x for x in live_calls(b) if fn_path(x.term) == "rsactor::actor::Message::handle"]
    okv = a0[0] == "await" and len(hs) == 1 and strip_wrappers(a0[1]) == ("call", hs[0].idx, callee(hs[0].term))
    run.require(okv, "O19.6", "on_tell_result-gets-handler-value", "on_tell_result receives %s, not a reference to the handler's return value" % show(a0), "argument = &<value returned by Message::handle>", loc=loc_of(b, k))
