"""C20 - metrics count what happened (feature `metrics`)."""
import lifecycle
from rules.common import cfg_of, tracer_of, live_calls, fn_of, loc_of, all_calls
from rules import c16
from prov import strip_wrappers, strip_refs, show
from cfg import callee, const_int

LEVEL = "other"
REQUIRE_FEATURES = ["metrics"]
QUICK_CONFIGS = [("metrics",), ("tracing", "metrics"), ("tracing", "metrics", "test-utils", "deadlock-detection")]
TRUSTED = ["T7", "T8", "T9"]
NOT_DECIDED = ["`avg <= max` and `max >= the longest handler` as arithmetic over measured durations: they follow from the decided structure (every record adds the same duration to the sum, the count and the running maximum; saturation only lowers the sum) by a paper argument that is not machine-checked here"]
EXPLANATION = (
    "Guard placement: MessageProcessingGuard::new has one call site in the crate, dominated by the Envelope arm of the mailbox match "
    "(never for the stop marker or leftovers), dominating the handle_message call, once per loop iteration; at the handler's suspension "
    "point the compiler's coroutine layout stores a MessageProcessingGuard, so it spans the handler and is dropped after it, also on "
    "unwinding. One record per guard: Drop calls record_message(self.start.elapsed()) once, start comes from Instant::now() in new. "
    "Counters: every writer of the collector's atomics is inventoried: message_count only fetch_add(1) in record_message, max only "
    "fetch_max, total only the saturating fetch_update, all on every path of record_message with the same duration value. snapshot() "
    "computes each field by the same expression tree as the accessor of that name; ActorRef's metric methods forward to the collector; "
    "ActorRef and ActorWeak hold Arc<MetricsCollector> and every construction copies it; one collector per spawn.")

MC = "metrics::collector::MetricsCollector"
GUARD = "metrics::collector::MessageProcessingGuard"


def run(run):
    for cfgname, f in run.for_configs():
        lc = lifecycle.get(f)
        if lc.errors or lc.body is None:
            for e in lc.errors:
                run.fail("O20.0", "lifecycle-anchor", e)
            continue
        run.count_body(lc.body)
        guard_placement(run, f, lc)
        guard_records_once(run, f)
        by = counters(run, f)
        if by is not None:
            accessor_laws(run, f, by, f.body(MC + "::record_message"))
        snapshot_agrees(run, f)
        survives(run, f)


def guard_placement(run, f, lc):
    gn = _guard_new(f)
    news = [(b, k) for b, k in all_calls(f) if gn is not None and callee(k.term) == gn.defn]
    news = [(b, k) for b, k in news if not b.name.startswith("metrics::collector::tests")]
    if not run.require(len(news) == 1 and news[0][0].name == lc.body.name, "O20.1", "guard-new-sites", "MessageProcessingGuard::new is called at %s" % [(b.name, loc_of(b, k)) for b, k in news],
                       "one MessageProcessingGuard::new call, in the lifecycle loop"):
        return
    g = news[0][1].idx
    cfg = lc.cfg
    env_arm = None
    for bb, info in lc.switch_info.items():
        c = info["cls"]
        if c and c[:2] == ("recv", "mailbox") and len(c) == 4 and __import__("anchors").names(f).envelope in info["arms"]:
            env_arm = info["arms"][__import__("anchors").names(f).envelope]
    hm = lc.hooks["handle_message"]
    if not run.require(env_arm is not None and len(hm) == 1, "O20.1", "anchors", "cannot find the Envelope arm / handler call", "found"):
        return
    h = hm[0]
    run.require(cfg.dominates(env_arm, g), "O20.1", "guard-only-for-envelopes", "the metrics guard is also created for the stop marker / outside the Envelope arm", "guard creation dominated by the Envelope arm", loc=lc.loc(g))
    run.require(cfg.dominates(g, h), "O20.1", "guard-before-handler", "the handler can start without the metrics guard having been created (message not counted / time not measured)",
                "guard created before the handler call on every path", loc=lc.loc(g))
    again = g in cfg.reach_after(g, avoid={lc.poll_fn_bb})
    run.require(not again, "O20.1", "one-guard-per-envelope", "more than one guard per loop iteration", "one guard per iteration")
    # the collector it measures into is the envelope's actor's collector
    tr = lc.tr
    a = strip_wrappers(tr.norm(tr.call_args(g)[0]))
    okc = a[0] == "call" and a[2] in __import__("anchors").metrics_accessors(f)
    run.require(okc, "O20.1", "guard-uses-actor-collector", "the guard records into %s" % show(a), "guard records into the actor's own collector", loc=lc.loc(g))
    # held across the handler await
    b = lc.body
    polls = lc.hook_awaits.get(h, [])
    held = False
    ysp = None
    if len(polls) == 1:
        ps = b.blocks[polls[0]].term.get("layout_span", b.blocks[polls[0]].term["span"])
        vs = b.layout_variants_at(b.blocks[polls[0]].term)
        if len(vs) == 1:
            ysp = ps
            for i in vs[0]["fields"]:
                if any(t.is_adt(GUARD) for t in f.ty(b.layout["saved"][i]["ty"]).walk()):
                    held = True
    run.require(held, "O20.1", "guard-spans-handler", "the metrics guard is not alive while the handler future is suspended (it would be dropped before the handler finishes)",
                "MessageProcessingGuard stored in the coroutine across the handler's suspension point", loc=lc.loc(h))
    run.sample({"rule": "O20.1", "config": run.cur_config, "guard_new": lc.loc(g), "handler": lc.loc(h)})


def guard_records_once(run, f):
    d = [b for b in f.fn_bodies() if b.defn.endswith("MessageProcessingGuard<'_> as std::ops::Drop>::drop") or ("MessageProcessingGuard" in b.defn and b.defn.endswith("::drop"))]
    if not run.require(len(d) == 1, "O20.2", "guard-drop-impl", "Drop for MessageProcessingGuard not found (%d)" % len(d), "found"):
        return
    b = d[0]
    run.count_body(b)
    tr = tracer_of(b)
    cfg = cfg_of(b)
    recs = [k for k in live_calls(b) if callee(k.term) == MC + "::record_message"]
    okr = len(recs) == 1 and not cfg.in_cycle(recs[0].idx) and all(cfg.dominates(recs[0].idx, r) for r in cfg.exits(("return",)))
    dur_ok = False
    if okr:
        dur = strip_wrappers(tr.norm(tr.call_args(recs[0].idx)[1]))
        dur_ok = dur[0] == "call" and dur[2].endswith("Instant::elapsed")
        if dur_ok:
            src = strip_refs(tr.norm(tr.call_args(dur[1])[0]))
            ga = f.adts.get(GUARD)
            dur_ok = src[0] == "field" and ga is not None and f.ty(ga["variants"][0]["fields"][src[1]]["ty"]).is_adt("std::time::Instant")
    run.require(okr and dur_ok, "O20.2", "drop-records-once", "MessageProcessingGuard::drop does not call record_message(self.start.elapsed()) exactly once on every path", "record_message(self.start.elapsed()) once")
    nb = _guard_new(f)
    if run.require(nb is not None, "O20.2", "guard-new-body", "MessageProcessingGuard::new not found", "found"):
        ntr = tracer_of(nb)
        ret = strip_wrappers(ntr.norm(ntr.local(0)))
        oks = ret[0] == "agg" and ret[1][0] == "adt" and ret[1][1] == GUARD
        if oks:
            # the guard's two fields, identified by type (their names are private): the clock reading and the collector
            ga = f.adts.get(GUARD)
            tys = [f.ty(fl["ty"]) for fl in ga["variants"][0]["fields"]]
            si = [i for i, t in enumerate(tys) if t.is_adt("std::time::Instant")]
            ci = [i for i, t in enumerate(tys) if t.peel_refs().is_adt(MC)]
            oks = len(si) == 1 and len(ci) == 1
            if oks:
                st = strip_wrappers(ret[2][si[0]])
                co = strip_wrappers(ret[2][ci[0]])
                oks = st[0] == "call" and st[2].endswith("Instant::now") and co == ("param", 1)
        run.require(oks, "O20.2", "guard-new-starts-clock", "MessageProcessingGuard::new does not store (collector, Instant::now())", "start = Instant::now(), collector = the argument")


def _guard_new(f):
    """The constructor of the guard: the public inherent fn of the guard type returning Self (its def path contains the
    impl's lifetime name, so it is looked up by type and signature)."""
    c = [d for d, fn in f.fns.items() if fn.get("has_body") and not fn.get("impl_trait") and fn.get("impl_self") is not None and
         f.ty(fn["impl_self"]).is_adt(GUARD) and f.ty(fn["output"]).is_adt(GUARD)]
    return f.body(c[0]) if len(c) == 1 else None


def collector_field_ops(f):
    """(field name, method, body, blk) for atomic operations on MetricsCollector fields."""
    mc = f.adts.get(MC)
    names = [fl["name"] for fl in mc["variants"][0]["fields"]] if mc else []
    out = []
    for b, blk in all_calls(f):
        fn = fn_of(blk)
        if not (fn.get("def") or "").startswith("std::sync::atomic::Atomic"):
            continue
        if b.name.startswith("metrics::collector::tests"):
            continue
        tr = tracer_of(b)
        a0 = strip_refs(tr.norm(tr.call_args(blk.idx)[0])) if blk.term["args"] else None
        if a0 and a0[0] == "field" and strip_refs(a0[2]) == ("param", 1) and b.arg_count >= 1 and f.ty(b.locals[1]["ty"]).peel_refs().is_adt(MC):
            out.append((names[a0[1]], fn.get("name"), b, blk))
        elif a0 and a0[0] == "field" and b.arg_count >= 1 and f.ty(b.locals[1]["ty"]).peel_refs().is_adt(MC):
            # an atomic inside a private struct that groups some of the collector's fields (`self.latency.total_nanos`)
            idx, t = [], a0
            while t[0] == "field":
                idx.append(t[1])
                t = strip_refs(t[2])
            if t == ("param", 1):
                path, adt = [], MC
                for i in reversed(idx):
                    a = f.adts.get(adt)
                    if not a or i >= len(a["variants"][0]["fields"]):
                        path = None
                        break
                    fl = a["variants"][0]["fields"][i]
                    path.append(fl["name"])
                    ty = f.ty(fl["ty"])
                    adt = ty.defn if ty.k == "adt" else None
                if path:
                    out.append((".".join(path), fn.get("name"), b, blk))
    return out


def counters(run, f):
    ops = collector_field_ops(f)
    by = {}
    for name, m, b, blk in ops:
        if m != "load":
            by.setdefault(name, []).append((m, b.defn.split("::")[-1], b, blk))
    want = {"message_count": ("fetch_add", "record_message"), "max_processing_nanos": ("fetch_max", "record_message"), "total_processing_nanos": ("fetch_update", "record_message")}
    # the three counters by role when they were regrouped into private sub-structs: the one atomic of a grouping struct
    # that record_message updates with fetch_max is the maximum, the one it updates with fetch_update / a CAS loop the total
    for legacy, meths in (("max_processing_nanos", ("fetch_max",)), ("total_processing_nanos", ("fetch_update", "compare_exchange", "compare_exchange_weak")), ("message_count", ("fetch_add",))):
        if legacy not in by:
            cands = [k for k, ws in by.items() if "." in k and any(w[0] in meths and w[1] == "record_message" for w in ws)]
            if len(cands) == 1:
                by[legacy] = by.pop(cands[0])
    rm = f.body(MC + "::record_message")
    if not run.require(rm is not None, "O20.3", "record_message-present", "record_message not found", "found"):
        return
    run.count_body(rm)
    cfg = cfg_of(rm)
    tr = tracer_of(rm)
    rets = cfg.exits(("return",))
    cas_form = None
    for fld, (meth, fnn) in want.items():
        ws = by.get(fld, [])
        ok_ = len(ws) == 1 and ws[0][0] == meth and ws[0][1] == fnn
        if not ok_ and meth == "fetch_update" and len(ws) == 1 and ws[0][0] in ("compare_exchange", "compare_exchange_weak") and ws[0][1] == fnn:
            # the definition of fetch_update written out: load; loop { CAS(cur, f(cur)) => Ok: leave, Err(seen): cur = seen }
            cas_form = _cas_loop(run, f, rm, cfg, tr, ws[0][3], rets)
            if cas_form is not None:
                run.ok("O20.3", "writers:%s" % fld, "only writer: a compare-exchange retry loop in %s" % fnn)
                run.ok("O20.3", "every-record-updates:%s" % fld, "the loop is left only through a successful exchange")
                continue
        run.require(ok_, "O20.3", "writers:%s" % fld, "%s is written by %s (expected only %s in %s)" % (fld, [(m, n) for m, n, _, _ in ws], meth, fnn), "only writer: %s in %s" % (meth, fnn))
        if ok_:
            blk = ws[0][3]
            run.require(all(cfg.dominates(blk.idx, r) for r in rets) and not cfg.in_cycle(blk.idx), "O20.3", "every-record-updates:%s" % fld, "%s is not updated on every path of record_message" % fld, "updated exactly once per record")
    # counters start at zero: every construction of the collector initialises the three counters with Atomic::new(0)
    inits = 0
    for bd in f.fn_bodies():
        if bd.name.startswith("metrics::collector::tests"):
            continue
        btr = tracer_of(bd)
        for bk in bd.blocks:
            for st in bk.stmts:
                if st["k"] == "assign" and st["rv"].get("agg") == "adt" and st["rv"].get("adt") == MC:
                    inits += 1
                    for fld, op in zip(st["rv"]["fields"], st["rv"]["ops"]):
                        if fld in ("message_count", "total_processing_nanos", "max_processing_nanos"):
                            continue
                        # a private struct grouping counters: every atomic in it starts at 0 as well
                        v = strip_wrappers(btr.norm(btr.operand(op)))
                        if v[0] == "agg" and v[1][0] == "adt" and v[1][1] in f.adts:
                            from sendpaths import subterms
                            for x in subterms(v):
                                x = strip_wrappers(x)
                                if x[0] == "call" and x[2].startswith("std::sync::atomic::Atomic") and x[2].endswith("::new"):
                                    z = strip_wrappers(btr.norm(btr.call_args(x[1])[0])) == ("int", 0)
                                    run.require(z, "O20.3", "starts-at-zero:%s" % fld, "a new collector starts with a non-zero atomic inside %s (%s)" % (fld, show(v)), "%s starts at 0" % fld, loc=f.span(st["span"]).loc)
                    for fld in ("message_count", "total_processing_nanos", "max_processing_nanos"):
                        if fld not in st["rv"]["fields"]:
                            continue
                        v = strip_wrappers(btr.norm(btr.operand(st["rv"]["ops"][st["rv"]["fields"].index(fld)])))
                        zero = v[0] == "call" and v[2].startswith("std::sync::atomic::Atomic") and v[2].endswith("::new") and strip_wrappers(btr.norm(btr.call_args(v[1])[0])) == ("int", 0)
                        run.require(zero, "O20.3", "starts-at-zero:%s" % fld, "a new collector starts with %s = %s, not 0 (counts / durations of messages that were never handled)" % (fld, show(v)),
                                    "%s starts at 0" % fld, loc=f.span(st["span"]).loc)
    run.require(inits >= 1, "O20.3", "collector-construction", "no construction of MetricsCollector found", "%d construction site(s)" % inits)
    fa = [w for w in by.get("message_count", []) if w[0] == "fetch_add"]
    if fa:
        inc = const_int(fa[0][3].term["args"][1])
        run.require(inc == 1, "O20.3", "count-increment-one", "message_count is incremented by %s per record" % inc, "fetch_add(1)")
    # the same duration feeds max and total
    fm = [w for w in by.get("max_processing_nanos", []) if w[0] == "fetch_max"]
    fu = [w for w in by.get("total_processing_nanos", []) if w[0] == "fetch_update"]
    if fm and cas_form is not None and not fu:
        vmax = strip_wrappers(tr.norm(tr.call_args(fm[0][3].idx)[1]))
        from_param = _derives_from(tr, vmax, ("param", 2))
        conv = sorted(_calls_in(tr, vmax))
        lossy = [c for c in conv if c.split("::")[-1] not in ("as_nanos", "min", "try_from", "try_into", "unwrap_or", "from", "into", "saturating_add", "clamp")]
        run.require(not lossy and any(c.endswith("as_nanos") for c in conv), "O20.3", "duration-conversion-total",
                    "the recorded value is computed from the duration through %s: not the total duration in nanoseconds (e.g. whole seconds would be lost)" % (lossy or conv),
                    "recorded value = duration.as_nanos() (saturated), the total duration")
        run.require(strip_wrappers(cas_form) == vmax and from_param, "O20.3", "same-duration-everywhere", "max and total are not updated with the same value derived from the recorded duration (max gets %s, total adds %s)" % (show(vmax), show(cas_form)),
                    "total += nanos (saturating, CAS loop) and max = max(max, nanos) with nanos derived from the duration argument")
    if fm and fu:
        vmax = strip_wrappers(tr.norm(tr.call_args(fm[0][3].idx)[1]))
        clos = tr.norm(tr.call_args(fu[0][3].idx)[3])
        same = False
        sat = False
        if clos[0] == "agg" and clos[1][0] == "closure":
            cap = strip_refs(clos[2][0]) if clos[2] else None
            same = cap is not None and strip_wrappers(cap) == vmax
            cb = f.body(clos[1][1])
            if cb is not None:
                ctr = tracer_of(cb)
                r = strip_wrappers(ctr.norm(ctr.local(0)))
                if r[0] == "agg" and r[1][:3] == ("adt", "std::option::Option", "Some"):
                    c = strip_wrappers(r[2][0])
                    if c[0] == "call" and c[2].endswith("saturating_add"):
                        aa = [strip_refs(ctr.norm(x)) for x in ctr.call_args(c[1])]
                        sat = ("param", 2) in aa and any(x[0] == "upvar" for x in aa)
        from_param = _derives_from(tr, vmax, ("param", 2))
        conv = sorted(_calls_in(tr, vmax))
        lossy = [c for c in conv if c.split("::")[-1] not in ("as_nanos", "min", "try_from", "try_into", "unwrap_or", "from", "into", "saturating_add", "clamp")]
        run.require(not lossy and any(c.endswith("as_nanos") for c in conv), "O20.3", "duration-conversion-total",
                    "the recorded value is computed from the duration through %s: not the total duration in nanoseconds (e.g. whole seconds would be lost)" % (lossy or conv),
                    "recorded value = duration.as_nanos() (saturated), the total duration")
        run.require(same and sat and from_param, "O20.3", "same-duration-everywhere", "max and total are not updated with the same value derived from the recorded duration (max gets %s)" % show(vmax),
                    "total += nanos (saturating) and max = max(max, nanos) with nanos derived from the duration argument")
    return by


def _unref(t):
    if isinstance(t, tuple):
        if t and t[0] in ("ref", "deref") and len(t) == 2:
            return _unref(t[1])
        return tuple(_unref(x) for x in t)
    return t


def accessor_laws(run, f, by, rm):
    """O20.6: what the accessors return, stated absolutely (the sibling comparison O20.4 cannot see a change made to both
    siblings, or to a helper they share): message_count() is the counter record_message increments, max_processing_time()
    is from_nanos of the atomic it raises with fetch_max, avg_processing_time() is from_nanos(total / count) exactly when
    count != 0 and Duration::ZERO otherwise - on the atomics identified by what record_message does to them."""
    import pathsem
    tr = tracer_of(rm)
    recv = {}
    for role in ("message_count", "max_processing_nanos", "total_processing_nanos"):
        ws = by.get(role, [])
        if len(ws) == 1:
            recv[role] = _unref(strip_refs(tr.norm(tr.call_args(ws[0][3].idx)[0])))
    if not run.require(len(recv) == 3, "O20.6", "counter-roles", "cannot identify the three counters by what record_message does to them (%s)" % sorted(recv), "count / total / max identified"):
        return
    C, T, M = recv["message_count"], recv["total_processing_nanos"], recv["max_processing_nanos"]

    def ld(x):
        return lambda t: isinstance(t, tuple) and t[0] == "callv" and t[1].startswith("std::sync::atomic::Atomic") and t[1].endswith("::load") and t[2] and _unref(t[2][0]) == x

    def from_nanos(pred):
        return lambda t: isinstance(t, tuple) and t[0] == "callv" and t[1].endswith("Duration::from_nanos") and len(t[2]) == 1 and pred(t[2][0])
    laws = {
        "message_count": lambda den: len(den) == 1 and not den[0][0] and ld(C)(den[0][1]),
        "max_processing_time": lambda den: len(den) == 1 and not den[0][0] and from_nanos(ld(M))(den[0][1]),
        "avg_processing_time": lambda den: len(den) == 2 and all(len(c) == 1 for c, _ in den) and
            {p for c, _ in den for _, p in c} == {True, False} and
            all(k[0] == "nz" and ld(C)(k[1]) for c, _ in den for k, _ in c) and
            all((from_nanos(lambda t: isinstance(t, tuple) and t[0] == "binop" and t[1] == "Div" and ld(T)(t[2]) and ld(C)(t[3]))(v) if list(c)[0][1]
                 else v == ("const", "std::time::Duration::ZERO") or (isinstance(v, tuple) and v[0] == "const" and str(v[1]).endswith("Duration::ZERO"))) for c, v in den),
    }
    for nm, law in laws.items():
        ab = f.body(MC + "::" + nm)
        if not run.require(ab is not None, "O20.6", "accessor-present:%s" % nm, "MetricsCollector::%s not found" % nm, "found"):
            continue
        try:
            den = sorted(pathsem.denotation(f, ab), key=str)
        except pathsem.TooComplex as e:
            run.fail("O20.6", "accessor-law:%s" % nm, "%s() is not a loop-free computation (%s)" % (nm, e))
            continue
        run.require(bool(law(den)), "O20.6", "accessor-law:%s" % nm, "%s() returns { %s }, not what the counters mean (count = number of records, max = from_nanos(max), avg = from_nanos(total / count) iff count != 0, else ZERO)" % (nm, pathsem.show(frozenset(den))[:300]),
                    "%s() = %s" % (nm, pathsem.show(frozenset(den))[:160]))


def _cas_loop(run, f, rm, cfg, tr, blk, rets):
    """Recognises `loop { match a.compare_exchange*(cur, cur.saturating_add(x), ..) { Ok(_) => break, Err(seen) => cur = seen } }`.
    Returns the term of x (the amount added) or None."""
    args = [tr.norm(a) for a in tr.call_args(blk.idx)]
    if len(args) < 3:
        return None
    cur, new = strip_wrappers(args[1]), strip_wrappers(args[2])
    if not (new[0] == "call" and new[2].endswith("saturating_add")):
        return None
    aa = [strip_wrappers(tr.norm(x)) for x in tr.call_args(new[1])]
    if len(aa) != 2 or aa[0] != cur:
        return None
    # cur: the initial load of the same field, or what a failed exchange observed
    fld = strip_refs(args[0])
    members = cur[1] if cur[0] == "phi" else (cur,)
    for m in members:
        m = strip_wrappers(m)
        is_load = m[0] == "call" and m[2].endswith("::load") and strip_refs(tr.norm(tr.call_args(m[1])[0])) == fld
        is_seen = m[0] == "field" and m[2][0] == "downcast" and m[2][1] == "Err" and strip_wrappers(m[2][2]) == ("call", blk.idx, callee(blk.term))
        if not (is_load or is_seen):
            return None
    # the loop is left only through the Ok arm: from the Err arm no return is reachable without another exchange
    if not cfg.in_cycle(blk.idx):
        return None
    nxt = rm.blocks[blk.term["target"]]
    if nxt.term["k"] != "switch":
        return None
    arms = {int(v): b2 for v, b2 in nxt.term["arms"]}
    err_t = arms.get(1, nxt.term["otherwise"])
    if any(r in cfg.reachable_from(err_t, avoid={blk.idx}) or r == err_t for r in rets):
        return None
    return aa[1]


def _derives_from(tr, t, leaf, depth=0):
    """Does term t depend on `leaf` (following call arguments)?"""
    from sendpaths import subterms
    if depth > 8:
        return False
    for x in subterms(t):
        if strip_refs(x) == leaf:
            return True
        if x[0] == "call":
            for a in tr.call_args(x[1]):
                if _derives_from(tr, tr.norm(a), leaf, depth + 1):
                    return True
    return False


def _calls_in(tr, t, depth=0):
    """Callee defs of all calls a term depends on (following call arguments)."""
    from sendpaths import subterms
    out = set()
    if depth > 8:
        return out
    for x in subterms(t):
        if x[0] == "call":
            out.add(x[2])
            for a in tr.call_args(x[1]):
                out |= _calls_in(tr, tr.norm(a), depth + 1)
    return out


def shape(tr, t, depth=0):
    """Canonical expression tree of a term (call sites replaced by callee + argument shapes)."""
    t = strip_wrappers(t)
    if depth > 12:
        return "..."
    k = t[0]
    if k == "call":
        args = [shape(tr, tr.norm(a), depth + 1) for a in tr.call_args(t[1])]
        args = [a for a in args if not (isinstance(a, tuple) and a and a[0] == "agg:std::sync::atomic::Ordering")]
        return ("call", t[2], tuple(args))
    if k == "agg":
        tag = t[1]
        name = "agg:%s" % (tag[1] if tag[0] == "adt" else tag[0])
        return (name, tag[2] if tag[0] == "adt" else None, tuple(shape(tr, x, depth + 1) for x in t[2]))
    if k == "phi":
        return ("phi", frozenset(shape(tr, x, depth + 1) for x in t[1]))
    if k in ("field", "downcast"):
        return (k, t[1], shape(tr, t[2], depth + 1))
    if k in ("deref", "ref", "discr"):
        return shape(tr, t[1], depth + 1) if k != "discr" else ("discr", shape(tr, t[1], depth + 1))
    if k == "binop":
        return ("binop", t[1], shape(tr, t[2], depth + 1), shape(tr, t[3], depth + 1))
    if k == "cast":
        return shape(tr, t[2], depth + 1)
    return t


def decisions(tr, body):
    """The branch decisions of a body: (shape of the switched value, arm values). Two computations with the same value
    expression trees can still differ in *when* each alternative is taken; this captures the guards."""
    out = set()
    for bk in body.blocks:
        t = bk.term
        if t["k"] == "switch":
            d = shape(tr, tr.norm(tr.operand(t["discr"])))
            # for an unsigned counter `x != 0` and `x > 0` are the same guard
            if isinstance(d, tuple) and d[0] == "binop" and d[1] == "Ne" and d[3] == ("int", 0) and "Atomic::<u" in str(d[2]):
                d = ("binop", "Gt", d[2], d[3])
            out.add((d, tuple(sorted(str(v) for v, _ in t["arms"]))))
    return frozenset(out)


def snapshot_agrees(run, f):
    sb = f.body(MC + "::snapshot")
    if not run.require(sb is not None, "O20.4", "snapshot-present", "MetricsCollector::snapshot not found", "found"):
        return
    run.count_body(sb)
    str_ = tracer_of(sb)
    ret = strip_wrappers(str_.norm(str_.local(0)))
    if not run.require(ret[0] == "agg" and ret[1][0] == "adt" and ret[1][1].endswith("MetricsSnapshot"), "O20.4", "snapshot-aggregate", "snapshot() does not build a MetricsSnapshot", "builds MetricsSnapshot"):
        return
    names = ret[1][3]
    # path-wise denotations (pathsem): value of each snapshot field per path, with the branch decisions and their polarity
    import pathsem
    try:
        spaths = pathsem.PathEval(f, sb).run()
    except pathsem.TooComplex as e:
        run.fail("O20.4", "snapshot-denotation", "snapshot() is not a loop-free computation (%s)" % e)
        return
    for i, nm in enumerate(names):
        ab = f.body(MC + "::" + nm)
        if not run.require(ab is not None, "O20.4", "accessor-present:%s" % nm, "no accessor MetricsCollector::%s for snapshot field" % nm, "found"):
            continue
        def proj(t, i=i):
            return t[3][i] if t[0] == "agg" and str(t[1]).endswith("MetricsSnapshot") and i < len(t[3]) else ("?", t)
        sden = pathsem.reduce((c, proj(v)) for c, v, _ in spaths)
        delegated = sden == frozenset({(frozenset(), ("callv", MC + "::" + nm, (("param", 1),)))}) or sden == frozenset({(frozenset(), ("callv", MC + "::" + nm, (("ref", ("param", 1)),)))})
        if delegated:
            run.ok("O20.4", "snapshot-equals-accessor:%s" % nm, "snapshot() calls the accessor")
            continue
        try:
            aden = pathsem.denotation(f, ab)
        except pathsem.TooComplex as e:
            run.fail("O20.4", "snapshot-equals-accessor:%s" % nm, "%s() is not a loop-free computation (%s)" % (nm, e))
            continue
        run.require(sden == aden, "O20.4", "snapshot-equals-accessor:%s" % nm, "snapshot().%s is { %s } but %s() is { %s }" % (nm, pathsem.show(sden), nm, pathsem.show(aden)),
                    "same value under the same conditions as the accessor: %s" % pathsem.show(aden)[:160])
    # ActorRef metric methods forward
    for nm in list(names) + ["metrics"]:
        d = "actor_ref::ActorRef::<T>::" + nm
        b = f.body(d)
        if b is None:
            run.fail("O20.4", "actorref-accessor:%s" % nm, "ActorRef::%s not found" % nm)
            continue
        tr = tracer_of(b)
        r = strip_wrappers(tr.norm(tr.local(0)))
        tgt = MC + "::" + ("snapshot" if nm == "metrics" else nm)
        ok_ = r[0] == "call" and r[2] == tgt
        if ok_:
            a0 = strip_wrappers(tr.norm(tr.call_args(r[1])[0]))
            # &*Arc::deref(&self.metrics)
            if a0[0] == "call" and a0[2].endswith("Deref::deref"):
                a0 = strip_refs(tr.norm(tr.call_args(a0[1])[0]))
            ar = f.adts["actor_ref::ActorRef"]["variants"][0]["fields"]
            if a0[0] == "call" and a0[2] in __import__("anchors").metrics_accessors(f):
                # through the crate's own accessor of the collector (`self.metrics_collector()`)
                ok_ = strip_refs(tr.norm(tr.call_args(a0[1])[0])) == ("param", 1)
            else:
                ok_ = a0[0] == "field" and ar[a0[1]]["name"] == "metrics" and strip_refs(a0[2]) == ("param", 1)
        run.require(ok_, "O20.4", "actorref-forwards:%s" % nm, "ActorRef::%s returns %s" % (nm, show(r)), "forwards to the collector's %s" % tgt.split("::")[-1])


def survives(run, f):
    for adt in ("actor_ref::ActorRef", "actor_ref::ActorWeak"):
        a = f.adts.get(adt)
        flds = {fl["name"]: f.ty(fl["ty"]) for fl in a["variants"][0]["fields"]}
        t = flds.get("metrics")
        run.require(t is not None and t.is_adt("std::sync::Arc") and t.args and t.args[0].is_adt(MC), "O20.5", "holds-arc:%s" % adt.split("::")[-1], "%s.metrics is %s" % (adt, t), "holds Arc<MetricsCollector> (strong)")
    n = 0
    fresh = []
    for bd in f.fn_bodies():
        tr = tracer_of(bd)
        for bk in bd.blocks:
            for st in bk.stmts:
                if st["k"] == "assign" and "agg" in st["rv"] and st["rv"].get("adt") in ("actor_ref::ActorRef", "actor_ref::ActorWeak"):
                    rv = st["rv"]
                    i = rv["fields"].index("metrics")
                    t = strip_wrappers(tr.norm(tr.operand(rv["ops"][i])))
                    tr0 = tr
                    if t[0] in ("upvar", "field"):
                        import sendpaths
                        bd2, t = sendpaths.get(f).lift(bd, t)        # built inside a closure: the captured value
                        t = strip_wrappers(t)
                        tr = tracer_of(bd2)
                    good = t[0] == "param"
                    if t[0] == "call" and t[2].startswith("std::sync::Arc") and t[2].endswith("::new") and rv["adt"] == "actor_ref::ActorRef":
                        # the spawn function's fresh handle: Arc::new(MetricsCollector::new()) (one such site: one-collector-per-actor)
                        inner = strip_wrappers(tr.norm(tr.call_args(t[1])[0]))
                        good = inner[0] == "call" and inner[2] == MC + "::new"
                        fresh.append(bd.name)
                    if t[0] == "call" and t[2].endswith("Clone::clone"):
                        src = strip_refs(tr.norm(tr.call_args(t[1])[0]))
                        good = src[0] == "field" and strip_refs(src[2])[0] == "param"
                        if not good and src[0] == "field" and strip_refs(src[2])[0] == "upvar":
                            import sendpaths
                            who = sendpaths.get(f).resolve_to_root_param(bd, src[2])     # `self` captured by a closure
                            good = who[0] == "param"
                    n += 1
                    tr = tr0
                    run.require(good, "O20.5", "metrics-copied:%s:%s" % (rv["adt"].split("::")[-1], (bd.root or bd.defn).split("::")[-1]), "handle built with metrics = %s" % show(t), "metrics Arc copied from the source handle")
    run.require(n >= 5, "O20.5", "construction-floor", "only %d handle constructions" % n, "%d constructions" % n)
    news = [(b.name, loc_of(b, k)) for b, k in all_calls(f) if callee(k.term) == MC + "::new" and "metrics::collector" not in b.name]
    run.require(len(news) == 1 and fresh == [news[0][0]], "O20.5", "one-collector-per-actor", "MetricsCollector::new called at %s, fresh handles built in %s" % (news, fresh),
                "one collector per spawn: the only MetricsCollector::new feeds the one ActorRef built from scratch")
