"""C02 - handling order respects mailbox acceptance order; stop takes its place in that order."""
import lifecycle
import sendpaths
from rules import sendrules as sr

LEVEL = "other"
TRUSTED = ["T1", "T4", "T9"]
NOT_DECIDED = ["FIFO order and 'send returned => enqueued' of the tokio channel itself (axiom T1)"]
EXPLANATION = (
    "With tokio's FIFO mpsc (T1), order is preserved iff there is one queue, every send path enqueues into it directly and in the "
    "caller's program order, and the loop handles in dequeue order. Decided statically: exactly one bounded mailbox channel per spawn, "
    "its Sender goes into the one ActorRef::new call and every ActorRef construction takes its sender from that lineage, its Receiver "
    "goes into the lifecycle call; no unbounded or second mailbox channel; the mailbox Sender is used only through send/blocking_send "
    "(no try_send, reserve, send_timeout), each consuming a message built in the same body; no spawned task or thread performs a send "
    "except the two blocking timeout helpers, whose caller waits for the helper's result on every path before returning; the loop "
    "dequeues at one recv site and awaits each handler inline before the next select!, and the blanket handler future runs the user's handler exactly once on every path (no skipped message); stop() is an in-band marker on the same sender.")


def run(run):
    for cfgname, f in run.for_configs():
        sp = sendpaths.get(f)
        lc = lifecycle.get(f)
        if lc.errors or lc.body is None:
            for e in lc.errors:
                run.fail("O2.0", "lifecycle-anchor", e)
            continue
        run.count_body(lc.body)
        sr.one_queue(run, f, sp, lc)
        sr.mailbox_sender_methods(run, f, sp)
        sr.envelope_constructions(run, f, sp, rule="O2.2")
        sr.no_async_detour(run, f, sp)
        sr.loop_handles_each_envelope_once(run, lc, rule="O2.4")
        sr.one_consumer(run, f, lc, rule="O2.4")
        # "everything accepted before stop() is handled before on_stop": a dequeued envelope whose user handler is
        # skipped on some path is accepted-but-never-handled, so the handler future must run Message::handle once on every path
        sr.handle_message_impl(run, f, rule="O2.4")
        sr.stop_marker(run, f, sp, rule="O2.5")
        sr.stop_marker_ends_loop(run, lc, rule="O2.5")
