"""C03 - ask: the reply belongs to the request, and ask never hangs on a dead actor."""
import lifecycle
import sendpaths
from sendpaths import norm_try, subterms
from rules import sendrules as sr
from rules.common import cfg_of, tracer_of, live_calls, fn_of, loc_of, all_calls
from prov import strip_wrappers, strip_refs, show, fn_path
from cfg import callee

LEVEL = "other"
TRUSTED = ["T1", "T3", "T9"]
NOT_DECIDED = []
EXPLANATION = (
    "Reply integrity: in both ask bodies a oneshot channel is created per call, its sender goes into the reply_channel of the very "
    "envelope that carries the message, its receiver is the only thing waited on after the send, the received box is downcast to the "
    "handler's Reply type and the Ok value is returned unchanged; in PayloadHandler::handle_message the one oneshot send of the crate "
    "sends Box::new(<the value the single Message::handle call produced>) on the envelope's own channel. No hang: from the Err "
    "outcome of the reply wait and of the mailbox send the asker reaches `return Err(..)` without another suspension point or loop; on "
    "the actor side both receivers are owned locals of the lifecycle coroutine that are never moved out or leaked (forget / "
    "ManuallyDrop / leak: zero sites), so every exit including unwinding drops them together with all queued envelopes and their "
    "oneshot senders (T1/T3/T9). ask_join awaits the returned JoinHandle once and maps JoinError into Error::Join.")


def run(run):
    for cfgname, f in run.for_configs():
        sp = sendpaths.get(f)
        lc = lifecycle.get(f)
        if lc.errors or lc.body is None:
            for e in lc.errors:
                run.fail("O3.0", "lifecycle-anchor", e)
            continue
        run.count_body(lc.body)
        per_request_channel(run, f, sp)
        replier(run, f)
        asker_never_hangs(run, f, sp)
        receivers_die_with_actor(run, f, lc)
        ask_join(run, f, sp)
        # "every ask ... returns an Err rather than ..." - a value, not a panic: the delivery functions cannot panic on their
        # own (O12.7), and with deadlock-detection the one deliberate panic of ask is raised only for a real cycle (the C15
        # soundness rules: edge <=> guard, guard owned across the awaits, destructor, panic condition)
        from rules import sendrules
        sendrules.delivery_never_panics(run, f, "O3.6")
        if "deadlock-detection" in f.features:
            import deadlock
            from rules import c15
            det = deadlock.get(f)
            if det.body is not None and not det.errors:
                c15.edge_iff_guard(run, f, det)
                c15.guard_lives_across_awaits(run, f, det)
                c15.destructor(run, f, det)
                c15.panic_condition(run, f, det)


def per_request_channel(run, f, sp):
    n = 0
    for site, flds, st in sp.envelopes:
        rc = flds.get("reply_channel")
        if not (rc[0] == "agg" and rc[1][:3] == ("adt", "std::option::Option", "Some")):
            continue
        n += 1
        b = site.body
        tr = tracer_of(b)
        cfg = cfg_of(b)
        fnname = sr.short_fn(site.root)
        tx = strip_wrappers(rc[2][0])
        ok_tx = tx[0] == "field" and tx[1] == 0 and tx[2][0] == "call" and fn_path(tr.call_term(tx[2][1])) == "tokio::sync::oneshot::channel"
        if not run.require(ok_tx, "O3.1", "reply-sender-per-request:%s" % fnname, "the envelope's reply channel in %s is %s, not the sender of a oneshot created by this call" % (fnname, show(tx)),
                           "reply_channel = Some(<sender of this call's oneshot>)", loc=site.loc):
            continue
        ch_bb = tx[2][1]
        run.require(not cfg.in_cycle(ch_bb), "O3.1", "oneshot-per-call:%s" % fnname, "the oneshot channel is created in a loop", "one oneshot per ask call", loc=loc_of(b, ch_bb))
        rx = ("field", 1, tx[2])
        # the receiver is waited on (await / blocking_recv) and nothing else consumes the reply
        waits = []
        for blk in live_calls(b):
            if fn_path(blk.term) == sendpaths.POLL:
                fut = strip_wrappers(tr.norm(tr.awaited_future(blk.idx)))
                if fut == rx:
                    waits.append(("await", blk.idx))
            elif fn_of(blk).get("name") == "blocking_recv" and strip_wrappers(tr.norm(tr.call_args(blk.idx)[0])) == rx:
                waits.append(("blocking_recv", blk.idx))
        if not run.require(len(waits) == 1, "O3.1", "reply-receiver-awaited:%s" % fnname, "the oneshot receiver of %s is waited on at %d places" % (fnname, len(waits)),
                           "the call's own oneshot receiver is awaited once", loc=site.loc):
            continue
        # after the send
        sends = [s2.bb for s2, m in sp.mailbox_ops if s2.body.name == b.name and m in ("send", "blocking_send")]
        run.require(len(sends) == 1 and cfg.dominates(sends[0], waits[0][1]), "O3.1", "wait-after-send:%s" % fnname, "the reply is waited for without/before the send", "reply waited for after the send", loc=loc_of(b, waits[0][1]))
        # result: Ok(*downcast::<Reply>(received)) where received is the Ok payload of the wait
        ret = norm_try(tr, tr.local(0))
        oks = [t for t in subterms(ret) if t[0] == "agg" and t[1][:3] == ("adt", "std::result::Result", "Ok")]
        good = False
        reply_ty = None
        for t in oks:
            v = strip_wrappers(t[2][0])
            # deref(field0(downcast Ok(call downcast(field0(downcast Ok(WAIT))))))
            if v[0] == "field" and v[2][0] == "downcast" and v[2][1] == "Ok" and v[2][2][0] == "call":
                dterm = tr.call_term(v[2][2][1])
                if (dterm.get("fn") or {}).get("name") == "downcast":
                    arg = strip_wrappers(tr.norm(tr.call_args(v[2][2][1])[0]))
                    src = arg[2][2] if arg[0] == "field" and arg[2][0] == "downcast" and arg[2][1] == "Ok" else None
                    if src is not None and ((src[0] == "await" and strip_wrappers(src[1]) == rx) or (src[0] == "call" and src[1] == waits[0][1])):
                        good = True
                        ta = dterm["fn"].get("targs", [])
                        reply_ty = f.ty(ta[-1]).s if ta else None
        rootfn = f.fns.get(site.root)
        out_s = f.ty(rootfn["output"]).s if rootfn else ""
        run.require(good and reply_ty is not None and reply_ty in out_s and "Reply" in reply_ty, "O3.1", "reply-value-returned:%s" % fnname,
                    "%s does not return Ok(*received.downcast::<T::Reply>()) of its own oneshot (downcast to %s, returns %s)" % (fnname, reply_ty, out_s),
                    "returns the received value downcast to %s" % reply_ty, loc=site.loc)
        run.sample({"rule": "O3.1", "config": run.cur_config, "fn": fnname, "oneshot": loc_of(b, ch_bb), "wait": waits[0][0], "downcast_to": reply_ty})
    run.require(n >= 2, "O3.1", "ask-envelope-floor", "only %d envelopes with a reply channel" % n, "%d ask-type envelope constructions" % n)


def replier(run, f):
    res = sr.handle_message_impl(run, f, rule="O3.2")
    if not res:
        return
    b, h = res
    tr = tracer_of(b)
    cfg = cfg_of(b)
    sends = [(bb, blk) for bb, blk in all_calls(f) if fn_of(blk).get("name") == "send" and "oneshot" in (fn_of(blk).get("def") or "")]
    if not run.require(len(sends) == 1 and sends[0][0].name == b.name, "O3.2", "one-reply-send", "oneshot send sites: %s" % [(x.name, loc_of(x, k)) for x, k in sends],
                       "one reply send in the crate, in handle_message"):
        return
    blk = sends[0][1]
    args = [tr.norm(a) for a in tr.call_args(blk.idx)]
    ch = strip_wrappers(args[0])
    ok_ch = ch[0] == "field" and ch[1] == 0 and ch[2][0] == "downcast" and ch[2][1] == "Some" and ch[2][2][0] == "upvar" and ch[2][2][2] == "reply_channel"
    val = strip_wrappers(args[1])
    ok_val = False
    if val[0] == "call" and val[2].startswith("std::boxed::Box") and val[2].endswith("::new"):
        inner = strip_wrappers(tr.norm(tr.call_args(val[1])[0]))
        if inner[0] == "await":
            fut = strip_wrappers(inner[1])
            ok_val = fut == ("call", h.idx, callee(h.term))
    run.require(ok_ch, "O3.2", "reply-on-envelope-channel", "the reply is sent on %s, not on the envelope's reply channel" % show(ch), "reply sent on the envelope's own channel", loc=loc_of(b, blk))
    run.require(ok_val, "O3.2", "reply-is-handler-value", "the reply value is %s, not the value returned by Message::handle for this envelope" % show(val),
                "reply = Box::new(<Message::handle(..).await>)", loc=loc_of(b, blk))
    run.require(cfg.dominates(h.idx, blk.idx) and not cfg.in_cycle(blk.idx), "O3.2", "reply-after-handler", "the reply can be sent before/without the handler", "reply only after the handler completed", loc=loc_of(b, blk))


def asker_never_hangs(run, f, sp):
    for site, variant, flds, st in sp.errors:
        if variant not in ("Receive", "Send"):
            continue
        ctx = sp.failure_context(site)
        if not ctx or ctx[0] != "guard" or ctx[1] not in ("reply_wait", "mailbox_send"):
            continue
        b = site.body
        if not any(s.body.name == b.name or (s.body.parent == b.name) for s, fl, _ in sp.envelopes if fl["reply_channel"][0] == "agg" and fl["reply_channel"][1][2] == "Some"):
            continue
        cfg = cfg_of(b)
        fnname = sr.short_fn(site.root)
        # the arm that leads here: all blocks reachable from the guard arm
        gs = [g for g in sp.guards(b, site.bb) if g[2] in ("Err", "true")] or list(sp.guards(b, site.bb))
        arm_entry = None
        for kind, subj, arm, sbb in gs:
            info_t = b.blocks[sbb].term
            # pick the arm target dominating the site (the innermost one when guards nest)
            for v, tgt in info_t["arms"] + [["x", info_t["otherwise"]]]:
                if tgt == site.bb or cfg.dominates(tgt, site.bb):
                    if arm_entry is None or cfg.dominates(arm_entry, tgt):
                        arm_entry = tgt
        if arm_entry is None:
            run.fail("O3.3", "failure-arm:%s:%s" % (variant, fnname), "cannot locate the failing arm", loc=site.loc)
            continue
        # path-sensitive: the failure may travel as an `Err(..)` value through a join and be re-tested (inlined helper + `?`)
        import tagreach
        reach = tagreach.TagReach(b, cfg).reach(arm_entry)
        ys = [x for x in reach if b.blocks[x].term["k"] == "yield"]
        cyc = [x for x in reach if cfg.in_cycle(x) and x in reach]
        blocking = [x for x in reach if b.blocks[x].term["k"] == "call" and fn_of(b.blocks[x]).get("name") in ("blocking_recv", "blocking_send", "recv", "lock")]
        rets = [x for x in reach if b.blocks[x].term["k"] == "return"]
        run.require(not ys and not cyc and not blocking and rets, "O3.3", "failure-returns-promptly:%s:%s" % (variant, fnname),
                    "after a failed %s the asker %s can still wait (suspension points %d, loops %d, blocking calls %d)" % (ctx[1], fnname, len(ys), len(cyc), len(blocking)),
                    "failed %s leads straight to `return Err(%s)`" % (ctx[1], variant), loc=site.loc)


def receivers_die_with_actor(run, f, lc):
    """Both receivers stay owned by the lifecycle coroutine family: they are only rebound to
    locals or captured by a nested body of the same function, never passed by value to a call
    or stored in another aggregate."""
    fam = f.family(lc.root_fn)
    n_holders = 0
    moved = []
    for b in fam:
        def is_rx_place(pl):
            if not pl["p"]:
                return f.ty(b.locals[pl["l"]]["ty"]).is_adt("tokio::sync::mpsc::Receiver")
            if pl["l"] == 1 and len(pl["p"]) == 1 and isinstance(pl["p"][0], int) and b.def_kind == "Closure":
                t1 = b.local_ty(1)
                if t1.k in ("closure", "coroutine") and pl["p"][0] < len(t1.arg_ids):
                    return t1.args[pl["p"][0]].is_adt("tokio::sync::mpsc::Receiver")
            return False
        n_holders += sum(1 for l in b.locals if f.ty(l["ty"]).is_adt("tokio::sync::mpsc::Receiver") and l.get("name"))
        for blk in b.blocks:
            for st in blk.stmts:
                if st["k"] != "assign":
                    continue
                rv = st["rv"]
                if "agg" in rv:
                    nested_ok = rv["agg"] in ("closure", "coroutine") and any(x.defn == rv.get("def") for x in fam)
                    for op in rv["ops"]:
                        pl = op.get("move")
                        if pl is not None and is_rx_place(pl) and not nested_ok:
                            moved.append(f.span(st["span"]).loc)
            if blk.term["k"] == "call":
                c = callee(blk.term)
                for a in blk.term["args"]:
                    pl = a.get("move")
                    if pl is not None and is_rx_place(pl) and c != lc.root_fn and not any(x.defn == c for x in fam):
                        moved.append(f.span(blk.term["span"]).loc)
    run.require(n_holders >= 2, "O3.4", "receiver-locals", "expected the two Receivers as named locals/parameters of the lifecycle function, found %d" % n_holders,
                "mailbox and control receivers are owned by the lifecycle coroutine")
    run.require(not moved, "O3.4", "receivers-never-moved-out", "a receiver is moved out of the lifecycle at %s (it could outlive the actor and keep askers waiting)" % moved,
                "both receivers stay owned by the lifecycle coroutine until it ends (dropped on every exit incl. unwinding)")
    leaks = []
    for bb, blk in all_calls(f):
        p = fn_of(blk).get("path") or ""
        if p in ("core::mem::forget",) or p.endswith("::ManuallyDrop::new") or (fn_of(blk).get("name") in ("forget", "leak") and fn_of(blk).get("krate") in ("core", "alloc", "std")):
            leaks.append((bb.name, loc_of(bb, blk), p))
    run.require(not leaks, "O3.4", "no-leaks", "values are leaked at %s" % leaks, "mem::forget / ManuallyDrop::new / Box::leak: 0 sites")


def _ops_of(rv):
    if "use" in rv:
        return [rv["use"]]
    if "agg" in rv:
        return rv["ops"]
    if "cast" in rv:
        return [rv["cast"]]
    return []


def ask_join(run, f, sp):
    bodies = [b for b in f.fn_bodies() if b.is_coroutine and (b.root or "") == "actor_ref::ActorRef::<T>::ask_join" and any(callee(k.term) == "actor_ref::ActorRef::<T>::ask" for k in live_calls(b))]
    if not run.require(len(bodies) == 1, "O3.5", "ask_join-body", "cannot find the body of ask_join", "found"):
        return
    b = bodies[0]
    run.count_body(b)
    tr = tracer_of(b)
    ret = norm_try(tr, tr.local(0))
    asks = [k for k in live_calls(b) if callee(k.term) == "actor_ref::ActorRef::<T>::ask"]
    ok_call = len(asks) == 1
    if ok_call:
        a = [tr.norm(x) for x in tr.call_args(asks[0].idx)]
        who = sp.resolve_to_root_param(b, a[0])
        msg = sp.resolve_to_root_param(b, a[1])
        ok_call = who[0] == "param" and who[2] == 1 and msg[0] == "param" and msg[2] == 2
    run.require(ok_call, "O3.5", "ask_join-calls-ask", "ask_join does not call self.ask(msg) exactly once", "calls self.ask(msg) once")
    # J = the awaited JoinHandle: await(try_ok(await(self.ask(msg)))).  Accepted result shapes:
    #   Ok(J.map_err(|e| Error::Join{..})?)                  and   match J { Ok(v) => Ok(v), Err(e) => Err(Error::Join{source: e}) }
    def is_J(t):
        t = norm_try(tr, t)
        if t[0] != "await":
            return False
        h = strip_wrappers(t[1])
        inner = None
        if h[0] == "try_ok":
            inner = strip_wrappers(h[1])                       # self.ask(msg).await?
        elif h[0] == "field" and h[1] == 0 and h[2][0] == "downcast" and h[2][1] == "Ok":
            inner = strip_wrappers(h[2][2])                    # match self.ask(msg).await { Ok(h) => h, Err(e) => return Err(e) }
        return inner is not None and inner[0] == "await" and bool(asks) and strip_wrappers(inner[1]) == ("call", asks[0].idx, "actor_ref::ActorRef::<T>::ask")
    oks = [t for t in subterms(ret) if t[0] == "agg" and t[1][:3] == ("adt", "std::result::Result", "Ok")]
    good = False
    for t in oks:
        v = t[2][0]
        if v[0] == "try_ok":
            c = strip_wrappers(v[1])
            if c[0] == "call" and c[2].endswith("map_err") and is_J(tr.call_args(c[1])[0]):
                good = True
        v = strip_wrappers(v)
        if v[0] == "field" and v[1] == 0 and v[2][0] == "downcast" and v[2][1] == "Ok" and is_J(v[2][2]):
            good = True
    # when the handle is taken by an explicit match (not `?`), the other arm must hand the ask's own error on unchanged
    ask_aw = [t for t in subterms(ret) if t[0] == "await" and strip_wrappers(t[1]) == ("call", asks[0].idx, "actor_ref::ActorRef::<T>::ask")] if asks else []
    uses_match = any(t[0] == "field" and t[1] == 0 and t[2][0] == "downcast" and t[2][1] == "Ok" and t[2][2] in ask_aw for t in subterms(ret))
    if uses_match:
        passes_on = any(t[0] == "agg" and t[1][:3] == ("adt", "std::result::Result", "Err") and t[2] and strip_wrappers(t[2][0])[0] == "field" and strip_wrappers(t[2][0])[1] == 0 and
                        strip_wrappers(t[2][0])[2][0] == "downcast" and strip_wrappers(t[2][0])[2][1] == "Err" and strip_wrappers(t[2][0])[2][2] in ask_aw for t in subterms(ret))
        run.require(passes_on, "O3.5", "ask_join-passes-ask-error-on", "ask_join matches on the result of ask but does not return the ask's error unchanged in the Err arm", "Err(e) of ask is returned as Err(e)")
    run.require(good, "O3.5", "ask_join-returns-task-output", "ask_join does not return Ok(<output of awaiting the JoinHandle returned by ask>): %s" % show(ret),
                "Ok(<output of the awaited JoinHandle that self.ask(msg).await? returned>)")
    joins = [(s, fl) for s, v, fl, _ in sp.errors if v == "Join"]
    okj = len(joins) == 1 and joins[0][0].root == "actor_ref::ActorRef::<T>::ask_join"
    if okj:
        s, fl = joins[0]
        src = strip_wrappers(fl.get("source"))
        okj = (src[0] == "param" and src[1] == 2 and s.body.local_ty(2).is_adt("tokio::task::JoinError")) or \
              (src[0] == "field" and src[1] == 0 and src[2][0] == "downcast" and src[2][1] == "Err" and is_J(src[2][2]))
    run.require(okj, "O3.5", "join-error-mapped", "Error::Join is not built from the JoinError of the awaited task", "Error::Join{source: <the JoinError>}")
