"""C07 - actors end when stopped or unreferenced, and only then."""
import lifecycle
import minterp as mi
from minterp import Interp, enum, sym, choice, some, NONE
from owns import owns_strong, maybe_init_blocks
from rules.common import all_calls, fn_of, loc_of, tracer_of, cfg_of, live_calls
from rules import c04, c05
from cfg import callee, is_panic_call

LEVEL = "other"
TRUSTED = ["T2", "T4", "T8", "T9"]
NOT_DECIDED = []
EXPLANATION = (
    "Ends-when-unreferenced: at the select! suspension point of the lifecycle loop the compiler's coroutine layout stores no value "
    "that may own a strong handle (ownership walk over the saved locals' types; locals the layout over-approximates are discharged "
    "by a must-move dataflow), under every feature set; the spawn function hands its strong values only to ActorRef::new, the "
    "lifecycle call and the returned tuple. Weak is weak: ActorWeak's fields own nothing strong, only ActorWeak is coerced into the "
    "weak trait objects and only ActorRef into the strong ones, the six traits have no other impls, no static owns a handle. Closed "
    "channel => graceful stop and never-ends-on-its-own are decided on the loop's CFG: the only edges that leave the loop lie in "
    "the control-signal arm, the stop-marker/None arm and the on_run-Err arm; the envelope and Ok(true)/Ok(false) arms can only "
    "return to the select!. upgrade() is decided by its full decision table.")

SIX = {"handler::TellHandler": "strong", "handler::AskHandler": "strong", "actor_control::ActorControl": "strong",
       "handler::WeakTellHandler": "weak", "handler::WeakAskHandler": "weak", "actor_control::WeakActorControl": "weak"}


def run(run):
    for cfgname, f in run.for_configs():
        lc = lifecycle.get(f)
        if lc.errors or lc.body is None:
            for e in lc.errors:
                run.fail("O7.0", "lifecycle-anchor", e)
            continue
        run.count_body(lc.body)
        no_strong_across_select(run, lc)
        spawn_keeps_nothing(run, f, lc)
        weak_is_weak(run, f)
        loop_exits(run, lc)
        from rules import sendrules
        import sendpaths
        sendrules.stop_marker_ends_loop(run, lc, rule="O7.3")
        # "after stop() is accepted ... the actor finishes": stop() must really enqueue its marker
        # (waiting send on self.sender), otherwise an accepted stop can be lost
        sendrules.stop_marker(run, f, sendpaths.get(f), rule="O7.3")
        # "finishes the work accepted before that point": a dequeued message is never skipped (the blanket handler future
        # runs the user's handler exactly once on every path)
        sendrules.handle_message_impl(run, f, rule="O7.3")
        no_starvation(run, lc)
        upgrade_table(run, f)
        # O7.3: closed channel / stop marker => on_stop(false), Completed{killed:false}
        c04.check_lifecycle(run, lc)
        c05.exit_table(run, lc)


def no_starvation(run, lc):
    """O7.6: an accepted stop marker (or the closing of the channels) can only end the actor if the loop gets to poll
    the receivers. Under `biased;` a branch polling user code (on_run) that precedes a receiver branch starves it whenever
    the user future is ready at every poll; a precondition on the mailbox branch can disable it altogether."""
    s = lc.select
    if not run.require(s is not None and "error" not in s, "O7.6", "select-site", "cannot parse the select! of the lifecycle loop", "one select! site"):
        return
    loc = lc.loc(lc.poll_fn_bb)
    kinds = [b["kind"] for b in lc.sel_branches]
    br = s["branches"]
    user = [i for i, k in enumerate(kinds) if k not in ("recv_ctrl", "recv_mailbox")]
    for want in ("recv_ctrl", "recv_mailbox"):
        idx = [i for i, k in enumerate(kinds) if k == want]
        if not run.require(len(idx) == 1, "O7.6", "receiver-branch:%s" % want, "the select! has %d %s branches" % (len(idx), want), "one %s branch" % want, loc=loc):
            continue
        i = idx[0]
        starved = s["biased"] and any(u < i for u in user)
        run.require(not starved, "O7.6", "receiver-not-starved:%s" % want,
                    "under `biased;` branch %d (%s) is polled only after %s: a user future that is ready at every poll starves it, so an accepted stop / the last reference going away never ends the actor"
                    % (i, want, [kinds[u] for u in user if u < i]), "%s is polled before every user-code branch (or the select is fair)" % want, loc=loc)
    mi_ = [i for i, k in enumerate(kinds) if k == "recv_mailbox"]
    if mi_ and mi_[0] < len(br):
        run.require("cond" not in br[mi_[0]], "O7.6", "mailbox-branch-unconditional", "the mailbox branch has a precondition `%s` (a queued stop marker would not be dequeued while it is false)" % br[mi_[0]].get("cond"),
                    "mailbox branch unconditional", loc=loc)


def select_yield_blocks(lc):
    b = lc.body
    out = []
    for p in lc.select_await:
        ps = b.blocks[p].term["span"]
        out += [blk.idx for blk in b.blocks if blk.term["k"] == "yield" and blk.term["span"] == ps]
    return out


def no_strong_across_select(run, lc):
    b, f = lc.body, lc.f
    ys = select_yield_blocks(lc)
    if not run.require(len(ys) == 1 and b.layout is not None, "O7.1", "select-suspension-point", "cannot identify the select! suspension point (yields=%s)" % ys, "found"):
        return
    y = ys[0]
    yspan = b.blocks[y].term.get("layout_span", b.blocks[y].term["span"])
    variants = b.layout_variants_at(b.blocks[y].term)
    if not run.require(len(variants) == 1, "O7.1", "select-layout-variant", "no coroutine-layout variant for the select! suspension point", "layout variant found"):
        return
    saved = [b.layout["saved"][i] for i in variants[0]["fields"]]
    cfg = lc.cfg
    names = []
    # map saved locals back to MIR locals by (name, type)
    for s in saved:
        ty = f.ty(s["ty"])
        names.append(s["name"] or "_")
        w = owns_strong(f, ty)
        if not w:
            run.ok("O7.1", "saved:%s" % (s["name"] or ty.s[:40]), "owns no strong handle: %s" % ty.s[:80], nontrivial=False)
            continue
        # the layout is computed before drop elaboration and keeps moved-out locals: discharge by must-move
        cands = [i for i, l in enumerate(b.locals) if l["ty"] == s["ty"] and l.get("name") == s["name"]]
        ok_ = False
        if len(cands) >= 1:
            ok_ = all(y not in maybe_init_blocks(b, cfg, l) for l in cands)
        run.require(ok_, "O7.1", "saved:%s" % (s["name"] or ty.s[:40]),
                    "the lifecycle loop may hold a strong reference while it waits in select!: local `%s` (%s) may be initialised at the suspension point" % (s["name"], w),
                    "local `%s` may own %s but is definitely moved out before the select! on every path" % (s["name"], w.split(":")[0][:50]), loc=lc.loc(y))
    run.sample({"rule": "O7.1", "config": run.cur_config, "suspension": lc.loc(y), "saved_locals": names})


def spawn_keeps_nothing(run, f, lc):
    sites = [(b, blk) for b, blk in all_calls(f) if callee(blk.term) == lc.root_fn]
    if len(sites) != 1:
        run.fail("O7.1", "spawn-fn", "expected one caller of the lifecycle function")
        return
    b, lblk = sites[0]
    run.count_body(b)
    allowed = {lc.root_fn, "actor_ref::ActorRef::<T>::new", "std::mem::drop"}
    bad = []
    for blk in live_calls(b):
        c = callee(blk.term)
        for a in blk.term["args"]:
            pl = a.get("move") or a.get("copy")
            if pl is None or pl["p"]:
                continue
            w = owns_strong(f, b.local_ty(pl["l"]))
            if w and c not in allowed:
                if c in ("tokio::spawn", "tokio::task::spawn") and tracer_of(b).place(pl) == ("call", lblk.idx, lc.root_fn):
                    continue    # the lifecycle future itself (it owns the clone until `drop(actor_ref)`, see saved-locals rule)
                bad.append((c, loc_of(b, blk), w))
    run.require(not bad, "O7.1", "spawn-hands-out-strong", "the spawn function passes a strong handle to %s" % bad[:2],
                "strong values of %s go only to ActorRef::new, the lifecycle call and the return value" % b.name, loc=loc_of(b, lblk))
    # the lifecycle receives a clone (not the original) and the original is returned
    tr = tracer_of(b)
    args = tr.call_args(lblk.idx)
    ar_args = [a for a in args if a[0] == "call" and "clone" in a[2]]
    run.require(len(ar_args) == 1, "O7.1", "lifecycle-gets-clone", "the lifecycle is not given `actor_ref.clone()`", "lifecycle gets a clone of the returned ActorRef")


def weak_is_weak(run, f):
    aw = f.adts.get("actor_ref::ActorWeak")
    if run.require(aw is not None, "O7.2", "actorweak-adt", "ActorWeak not found", "found"):
        for fld in aw["variants"][0]["fields"]:
            w = owns_strong(f, f.ty(fld["ty"]))
            run.require(not w, "O7.2", "actorweak-field:%s" % fld["name"], "ActorWeak.%s owns a strong handle: %s" % (fld["name"], w), "%s: %s" % (fld["name"], f.ty(fld["ty"]).s[:60]))
    # impls of the six traits
    seen = {}
    for im in f.impls:
        tr = im.get("trait")
        if tr in SIX:
            st = f.ty(im["self_ty"])
            want = "actor_ref::ActorRef" if SIX[tr] == "strong" else "actor_ref::ActorWeak"
            seen.setdefault(tr, []).append(st.s)
            run.require(st.is_adt(want), "O7.2", "impl:%s" % tr, "%s is implemented for %s (only %s may stand behind this trait object)" % (tr, st.s, want),
                        "%s implemented for %s" % (tr, st.s), loc=f.span(im["span"]).loc)
    for tr in SIX:
        run.require(len(seen.get(tr, [])) == 1, "O7.2", "impl-count:%s" % tr, "%s has %d impls" % (tr, len(seen.get(tr, []))), "exactly one impl")
    # unsize coercions into the trait objects
    n = 0
    for b in f.fn_bodies():
        for blk in b.blocks:
            for st in blk.stmts:
                if st["k"] != "assign" or "cast" not in st["rv"] or not st["rv"]["kind"].startswith("ptr:Unsize"):
                    continue
                tgt = f.ty(st["rv"]["ty"])
                dyns = [t for t in tgt.walk() if t.k == "dyn" and t.defn in SIX]
                if not dyns:
                    continue
                n += 1
                op = st["rv"]["cast"]
                pl = op.get("move") or op.get("copy")
                src = b.local_ty(pl["l"]) if pl is not None and not pl["p"] else None
                if src is not None and any(t.k == "dyn" and t.defn == dyns[0].defn for t in src.walk()):
                    n -= 1
                    continue    # dyn -> dyn re-coercion (lifetime only)
                kind = SIX[dyns[0].defn]
                want = "actor_ref::ActorRef" if kind == "strong" else "actor_ref::ActorWeak"
                other = "actor_ref::ActorWeak" if kind == "strong" else "actor_ref::ActorRef"
                ok_ = src is not None and any(t.is_adt(want) for t in src.walk()) and not any(t.is_adt(other) for t in src.walk())
                run.require(ok_, "O7.2", "unsize:%s:%s" % (dyns[0].defn, b.name), "%s is coerced into dyn %s" % (src, dyns[0].defn),
                            "%s -> dyn %s" % (src.s[:50] if src else src, dyns[0].defn), loc=f.span(st["span"]).loc)
    run.require(n >= 18, "O7.2", "unsize-sites", "only %d coercions into the handle trait objects found (expected >= 18)" % n, "%d coercion sites checked" % n)
    for s in f.statics:
        w = owns_strong(f, f.ty(s["ty"]))
        run.require(not w, "O7.2", "static:%s" % s["def"], "static %s owns a strong handle: %s" % (s["def"], w), "no strong handle", nontrivial=False)


def loop_exits(run, lc):
    cfg, b = lc.cfg, lc.body
    P = lc.poll_fn_bb
    reach = cfg.reach_after(P)
    loop = {x for x in reach if P in cfg.reachable_from(x)}
    loop.add(P)
    def arm(cls_prefix, names, kind="discr", cls_len=None):
        hits = []
        for bb, info in lc.switch_info.items():
            c = info["cls"]
            if c and c[:len(cls_prefix)] == cls_prefix and info["kind"] == kind and (cls_len is None or len(c) == cls_len):
                hits.append((bb, info))
        out = []
        for bb, info in hits:
            # a later re-test of the same received value (e.g. on the recorded exit reason, after the loop) is not a select! arm
            if any(b2 != bb and bb in cfg.reachable_from(b2) and b2 not in cfg.reachable_from(bb) for b2, _ in hits):
                continue
            for nme in names:
                if nme in info["arms"]:
                    out.append(info["arms"][nme])
        return out
    term_arms = arm(("recv", "ctrl"), ["Some", "None"], cls_len=3)
    if not term_arms and lc.ctrl_split_by_predicate():
        term_arms = lc.ctrl_branch_targets() * 2      # both outcomes are handled by the one control-recv branch
    stop_arms = arm(("recv", "mailbox"), ["None"], cls_len=3) + arm(("recv", "mailbox"), [__import__("anchors").names(lc.f).stop], cls_len=4)
    err_arms = arm(("hook", "on_run"), ["Err"], cls_len=3)
    env_arms = arm(("recv", "mailbox"), [__import__("anchors").names(lc.f).envelope], cls_len=4)
    cont_arms = arm(("hook", "on_run"), ["true", "false"], kind="value", cls_len=4)
    if not cont_arms:
        cont_arms = arm(("hook", "on_run"), ["Ok"], cls_len=3)       # `Ok(keep) => idle = keep`: one continuing arm for both values
    run.require(term_arms and stop_arms and err_arms and env_arms and len(cont_arms) in (1, 2), "O7.4", "arms-found",
                "cannot identify the select! arms (term=%s stop=%s err=%s env=%s cont=%s)" % (term_arms, stop_arms, err_arms, env_arms, cont_arms), "all arms identified")
    sel_ctrl = []
    for bb, info in lc.switch_info.items():
        if info["cls"] == ("select_out",):
            for i, br in enumerate(lc.sel_branches):
                if br["kind"] == "recv_ctrl" and ("_%d" % i) in info["arms"]:
                    sel_ctrl.append(info["arms"]["_%d" % i])
    # both outcomes of the control recv end the actor, so the whole branch handler is an ending region
    both_end = len(term_arms) == 2
    ending = set((sel_ctrl if both_end else term_arms) + term_arms + stop_arms + err_arms)
    # every edge leaving the loop towards a return lies under an ending arm
    rets = set(cfg.exits(("return",)))
    bad = []
    for u in loop:
        for v in cfg.succ[u]:
            if v in loop:
                continue
            if not (cfg.reachable_from(v) & rets):
                continue   # leads only to panic/unreachable
            if not any(cfg.dominates(a, v) or a == v for a in ending):
                bad.append((lc.loc(u), lc.loc(v)))
    run.require(not bad, "O7.4", "loop-exit-edges", "the loop can be left outside the termination / stop / on_run-error arms: %s" % bad[:3],
                "every loop exit that can reach `return` is dominated by the control-signal arm, the stop/None arm or the on_run-Err arm")
    for a in env_arms + cont_arms:
        r = cfg.reachable_from(a, avoid={P})
        leaves = [x for x in r if x in rets]
        run.require(not leaves and P in cfg.reachable_from(a), "O7.4", "continuing-arm:%s" % _arm_name(lc, a),
                    "arm at %s can reach `return` without going through the select! again" % lc.loc(a), "arm only returns to the select!", loc=lc.loc(a))
    # "all branches disabled" arm only panics
    for bb, info in lc.switch_info.items():
        if info["cls"] == ("select_out",) and "Disabled" in info["arms"]:
            d = info["arms"]["Disabled"]
            r = cfg.reachable_from(d)
            run.require(not (r & rets) and P not in r, "O7.4", "disabled-arm-diverges", "the all-branches-disabled arm does not diverge", "Disabled arm only panics (unreachable: two branches are unconditional)")


def _arm_name(lc, a):
    for bb, info in lc.switch_info.items():
        for n, t in info["arms"].items():
            if t == a and info["cls"]:
                return "%s=%s" % (info["cls"][1] if len(info["cls"]) > 1 else info["cls"][0], n)
    return str(a)


def upgrade_table(run, f):
    d = "actor_ref::ActorWeak::<T>::upgrade"
    body = f.body(d)
    if not run.require(body is not None, "O7.5", "upgrade-present", "ActorWeak::upgrade not found", "found"):
        return
    run.count_body(body)
    CF = "std::ops::ControlFlow"
    mi.STD_VARIANTS[CF] = ["Continue", "Break"]

    def bi_upgrade(it, fn, args, path, body_, blk, depth):
        # eager fork: one outcome per result of WeakSender::upgrade (a repeated upgrade of the same
        # weak sender on one path is consistent with the first)
        a = mi._peel(args[0])
        nm = mi.show(a)
        key = "upgrade(%s)" % nm
        alts = [NONE, some(sym("strong(%s)" % nm))]
        if key in path.assume:
            return [(path, [x for x in alts if mi.show(x) == path.assume[key]][0])]
        out = []
        for alt in alts:
            p2 = path.fork()
            p2.assume[key] = mi.show(alt)
            out.append((p2, alt))
        return out

    def bi_closed(it, fn, args, path, body_, blk, depth):
        return [(path, mi.free("closed(%s)" % mi.show(mi._peel(args[0]))))]

    def bi_count(it, fn, args, path, body_, blk, depth):
        return [(path, ("symint", "count(%s)" % mi.show(mi._peel(args[0]))))]

    def bi_branch(it, fn, args, path, body_, blk, depth):
        v = args[0]
        if v[0] == "choice":
            out = []
            for alt in v[2]:
                p2 = path.fork()
                p2.assume[v[1]] = mi.show(alt)
                out += bi_branch(it, fn, [alt], p2, body_, blk, depth)
            return out
        if v[0] == "enum" and v[1] == mi.OPTION:
            if v[2] == "Some":
                return [(path, enum(CF, "Continue", v[3][0]))]
            return [(path, enum(CF, "Break", NONE))]
        raise mi.Unsupported("Try::branch on %r" % (v,))

    def bi_from_residual(it, fn, args, path, body_, blk, depth):
        return [(path, NONE)]

    it = Interp(f, builtins={"tokio::sync::mpsc::WeakSender::<T>::upgrade": bi_upgrade, "core::ops::try_trait::Try::branch": bi_branch,
                             "tokio::sync::mpsc::Sender::<T>::is_closed": bi_closed, "tokio::sync::mpsc::WeakSender::<T>::strong_count": bi_count,
                             "core::ops::try_trait::FromResidual::from_residual": bi_from_residual,
                             "core::clone::Clone::clone": mi.bi_clone})
    try:
        res = it.table(body, [("ref", sym("self"))])
    except (mi.Unsupported, mi.Infeasible) as e:
        run.fail("O7.5", "upgrade-table", "cannot compute the decision table of ActorWeak::upgrade: %s" % e)
        return
    aw = f.adts["actor_ref::ActorWeak"]["variants"][0]["fields"]
    ar = f.adts["actor_ref::ActorRef"]["variants"][0]["fields"]
    bad = []
    n_some = 0
    for p, v in res:
        ups = {k: val for k, val in p.assume.items() if k.startswith("upgrade(")}
        all_some = len(ups) == 2 and all(val.startswith("Option::Some") for val in ups.values())
        if all_some:
            n_some += 1
            okv = v[0] == "enum" and v[1] == mi.OPTION and v[2] == "Some" and v[3][0][0] == "enum" and v[3][0][1] == "actor_ref::ActorRef"
            if not okv:
                bad.append("both upgrades succeed but the result is %s" % mi.show(v))
                continue
            flds = v[3][0][3]
            for i, fl in enumerate(ar):
                val = mi.show(flds[i])
                if fl["name"] == "id" and val != "?self.%d" % [x["name"] for x in aw].index("id"):
                    bad.append("id of the upgraded reference is %s" % val)
                if f.ty(fl["ty"]).is_adt("tokio::sync::mpsc::Sender"):
                    import anchors
                    # the weak sender of the same channel (same message type), possibly inside a private grouping struct
                    want_args = [a.s for a in f.ty(fl["ty"]).args]
                    wp = [p_ for p_, n, t in anchors.field_paths(f, "actor_ref::ActorWeak", lambda ty: ty.k == "adt" and ty.defn.startswith("tokio::sync::mpsc") and "WeakSender" in ty.defn)
                          if [a.s for a in t.args] == want_args]
                    j = wp[0] if len(wp) == 1 else None
                    if val != "?strong(?self.%s)" % j:
                        bad.append("field %s of the upgraded reference is %s, not the upgrade of the weak %s" % (fl["name"], val, fl["name"]))
        else:
            if v != NONE:
                bad.append("an upgrade fails (%s) but the result is %s" % (ups, mi.show(v)))
        if all_some and v == NONE:
            pass
    # "exactly while some strong reference exists": whenever both weak senders upgrade, the result must be Some
    for p, v in res:
        ups = {k: val for k, val in p.assume.items() if k.startswith("upgrade(")}
        if len(ups) == 2 and all(val.startswith("Option::Some") for val in ups.values()) and v == NONE:
            other = {k: val for k, val in p.assume.items() if not k.startswith("upgrade(")}
            bad.append("both weak senders upgrade (strong references exist) but upgrade() returns None under %s" % other)
    run.require(not bad and n_some >= 1 and len(res) >= 3, "O7.5", "upgrade-table", "; ".join(bad[:3]) or "unexpected table size %d" % len(res),
                "%d paths: Some(ActorRef{id, both upgraded senders}) iff both weak senders upgrade, else None" % len(res), loc=f.span(f.fns[d]["span"]).loc)
