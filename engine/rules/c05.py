"""C05 - ActorResult truthfully reports how the actor ended."""
import lifecycle
import minterp as mi
from minterp import Interp, enum, sym, B, some, NONE, ok, err
from rules.common import all_calls, fn_of, loc_of, tracer_of, cfg_of
from prov import strip_wrappers, show
from cfg import callee

LEVEL = "other"
TRUSTED = ["T6", "T8", "T9"]
NOT_DECIDED = []
EXPLANATION = (
    "(1) Exit table: every abstract return state of the lifecycle coroutine (exhaustive exploration of CFG x constant store "
    "x hook-outcome flags) is compared field by field with what its path says happened: variant, phase constant, killed == "
    "'Terminate consumed', error == Err payload of the first failing hook, actor == the value every hook borrowed (None only "
    "after a failed on_start). (2) The lifecycle future goes straight into tokio::spawn (panic => JoinError) and there is no "
    "catch_unwind. (3) Accessor laws: the complete decision table of every ActorResult method and conversion is computed "
    "from its MIR over all 18 abstract shapes of the enum (2 Completed x 16 Failed) and compared with the specification table.")

AR = "actor_result::ActorResult"
FP = "actor_result::FailurePhase"
PHASES = ["OnStart", "OnRun", "OnStop", "OnRunThenOnStop"]


def run(run):
    for cfgname, f in run.for_configs():
        lc = lifecycle.get(f)
        if lc.errors or lc.body is None:
            for e in lc.errors:
                run.fail("O5.0", "lifecycle-anchor", e)
            continue
        run.count_body(lc.body)
        exit_table(run, lc)
        spawn_shape(run, f, lc)
        accessor_laws(run, f)
        # "killed=true exactly when a kill signal ended the actor": a consumed control signal is a kill only if kill() is the
        # only sender on the control channel (C06 rule O6.1)
        from rules import c06
        c06.control_channel(run, f)


def _field(desc, name):
    for n, v in desc[1]:
        if n == name:
            return v
    return None


def exit_table(run, lc):
    ai = lc.explore()
    cfg = lc.cfg
    rets = cfg.exits(("return",))
    n = 0
    kinds = {}
    start_bb = lc.hooks["on_start"][0] if lc.hooks["on_start"] else None

    def is_actor_term(t):
        # field0(downcast Ok(await on_start))
        c = lc.classify(strip_wrappers(t))
        return c == ("hook", "on_start", start_bb, ("payload", "Ok"))

    def err_payload_of(t):
        c = lc.classify(strip_wrappers(t))
        if c and len(c) == 4 and c[0] == "hook" and c[3] == ("payload", "Err"):
            return (c[1], c[2])
        return None

    for r in rets:
        for s in ai.states_at(r):
            n += 1
            fl = s[2]
            desc = s[4]
            consumed = "ctrl_some" in fl
            probs = []
            if desc is None or desc[0] not in ("Completed", "Failed"):
                probs.append("return value is not an ActorResult aggregate built on this path")
                kind = "?"
            else:
                var = desc[0]
                killed = _field(desc, "killed")
                actor = _field(desc, "actor")
                if "on_start_err" in fl:
                    kind = "start_failed"
                    exp_phase = "OnStart"
                elif "on_run_err" in fl:
                    kind = "run_failed+stop_failed" if "on_stop_err" in fl else "run_failed"
                    exp_phase = "OnRunThenOnStop" if "on_stop_err" in fl else "OnRun"
                elif "on_stop_err" in fl:
                    kind = "stop_failed"
                    exp_phase = "OnStop"
                else:
                    kind = "completed"
                    exp_phase = None
                kind += "+killed" if consumed else ""
                if exp_phase is None:
                    if var != "Completed":
                        probs.append("all hooks succeeded but the result is %s" % var)
                    elif not (actor and actor[0] == "t" and is_actor_term(actor[1])):
                        probs.append("Completed.actor is not the actor instance created by on_start")
                else:
                    if var != "Failed":
                        probs.append("a hook failed (%s) but the result is %s" % (kind, var))
                    else:
                        ph = _field(desc, "phase")
                        if ph != ("e", FP, exp_phase):
                            probs.append("phase is %s, expected %s" % (ph[2] if ph and ph[0] == "e" else ph, exp_phase))
                        ev = _field(desc, "error")
                        src = err_payload_of(ev[1]) if ev and ev[0] == "t" else None
                        want_hook = {"OnStart": "on_start", "OnRun": "on_run", "OnRunThenOnStop": "on_run", "OnStop": "on_stop"}[exp_phase]
                        if src is None or src[0] != want_hook:
                            probs.append("error field is not the Err value of %s (it is %s)" % (want_hook, show(ev[1]) if ev and ev[0] == "t" else ev))
                        elif want_hook == "on_stop" and ("on_stop_err@%d" % src[1]) not in fl:
                            probs.append("error field comes from a different on_stop call than the one that failed on this path")
                        if exp_phase == "OnStart":
                            a_ok = actor == ("e", "std::option::Option", "None") or (
                                actor and actor[0] == "t" and actor[1][0] == "agg" and actor[1][1][:3] == ("adt", "std::option::Option", "None"))
                            if not a_ok:
                                probs.append("actor is not None after a failed on_start")
                        else:
                            a = actor[1] if actor and actor[0] == "t" else None
                            a_ok = a is not None and a[0] == "agg" and a[1][:3] == ("adt", "std::option::Option", "Some") and is_actor_term(a[2][0])
                            if not a_ok:
                                probs.append("actor is not Some(<the actor instance>)")
                if var in ("Completed", "Failed"):
                    if not killed or killed[0] != "c":
                        probs.append("killed field is not determined on this path")
                    elif bool(killed[1]) != consumed:
                        probs.append("killed=%s but a Terminate signal was %s on this path" % (bool(killed[1]), "consumed" if consumed else "not consumed"))
            kinds[kind] = kinds.get(kind, 0) + 1
            for p in probs:
                run.fail("O5.1", "exit:%s" % kind, p, loc=lc.loc(desc[2]) if desc else lc.loc(r))
            if not probs:
                run.ok("O5.1", "exit:%s" % kind, "ActorResult::%s agrees with the path" % desc[0], loc=lc.loc(desc[2]), nontrivial=True)
    need = ["start_failed", "completed", "completed+killed", "stop_failed", "stop_failed+killed", "run_failed", "run_failed+stop_failed"]
    missing = [k for k in need if k not in kinds]
    run.require(not missing, "O5.1", "exit-kinds-covered", "expected exit kinds not found in the exploration: %s" % missing,
                "exit kinds explored: %s" % sorted(kinds.items()))
    run.sample({"rule": "O5.1", "config": run.cur_config, "return_states": n, "exit_kinds": kinds})
    run.extra["states"] = run.extra.get("states", 0) + len(ai.states)
    # the actor handed to every hook is the one returned
    b = lc.body
    for h in ("on_run", "on_stop", "handle_message"):
        for bb in lc.hooks[h]:
            args = lc.tr.call_args(bb)
            idx = 1 if h == "handle_message" else 0
            t = lc.tr.norm(args[idx]) if len(args) > idx else None
            c = lc.classify(strip_wrappers(t)) if t else None
            run.require(c == ("hook", "on_start", start_bb, ("payload", "Ok")), "O5.1", "hook-gets-actor:%s" % h,
                        "%s is not called on the actor instance created by on_start (%s)" % (h, show(t) if t else None),
                        "%s borrows the actor local that the exits return" % h, loc=lc.loc(bb))


def spawn_shape(run, f, lc):
    """O5.2: the lifecycle future goes straight into tokio::spawn."""
    root = lc.root_fn
    sites = [(b, blk) for b, blk in all_calls(f) if callee(blk.term) == root]
    if not run.require(len(sites) == 1, "O5.2", "lifecycle-call-sites", "expected one call of %s, found %d" % (root, len(sites)), "one call site"):
        return
    b, blk = sites[0]
    tr = tracer_of(b)
    spawns = [x for x in b.calls() if (fn_of(x).get("path") or "").startswith("tokio::task::spawn::spawn") or callee(x.term) == "tokio::spawn"]
    good = False
    for sp in spawns:
        a = tr.call_args(sp.idx)
        if a and strip_wrappers(a[0]) == ("call", blk.idx, root):
            good = True
    run.require(good, "O5.2", "lifecycle-into-tokio-spawn", "the lifecycle future is not passed directly to tokio::spawn in %s" % b.name,
                "tokio::spawn(run_actor_lifecycle(..)) in %s" % b.name, loc=loc_of(b, blk))
    n_spawn = [(bb.name, loc_of(bb, x)) for bb, x in all_calls(f) if (fn_of(x).get("path") or "").startswith("tokio::task::spawn::spawn")]
    run.require(len(n_spawn) == 1, "O5.2", "tokio-spawn-sites", "tokio::spawn used at %s" % n_spawn, "tokio::spawn: one site in the crate")


# ---- accessor laws ------------------------------------------------------------------------
def shapes():
    out = []
    for k in (False, True):
        out.append(enum(AR, "Completed", sym("actor"), B(k)))
    for a in (NONE, some(sym("actor"))):
        for ph in PHASES:
            for k in (False, True):
                out.append(enum(AR, "Failed", a, sym("error"), enum(FP, ph), B(k)))
    return out


def spec(name, s):
    var = s[2]
    comp = var == "Completed"
    if comp:
        actor, killed = s[3][0], s[3][1][1]
        aopt, error, phase = some(actor), None, None
    else:
        aopt, error, phase, killed = s[3][0], s[3][1], s[3][2][2], s[3][3][1]
    T = {
        "is_completed": lambda: B(comp),
        "is_failed": lambda: B(not comp),
        "was_killed": lambda: B(killed),
        "stopped_normally": lambda: B(comp and not killed),
        "is_startup_failed": lambda: B((not comp) and phase == "OnStart"),
        "is_runtime_failed": lambda: B((not comp) and phase in ("OnRun", "OnRunThenOnStop")),
        "is_cleanup_failed": lambda: B((not comp) and phase == "OnRunThenOnStop"),
        "is_stop_failed": lambda: B((not comp) and phase == "OnStop"),
        "has_actor": lambda: B(aopt[2] == "Some"),
        "actor": lambda: some(("ref", aopt[3][0])) if aopt[2] == "Some" else NONE,
        "into_actor": lambda: aopt,
        "error": lambda: NONE if comp else some(("ref", error)),
        "into_error": lambda: NONE if comp else some(error),
        "to_result": lambda: ok(s[3][0]) if comp else err(error),
        "from": lambda: ("tuple", (aopt, NONE if comp else some(error))),
    }
    return T[name]()


def accessor_laws(run, f):
    methods = {}
    for d, fn in f.fns.items():
        if fn.get("impl_self") is not None and f.ty(fn["impl_self"]).is_adt(AR) and not fn.get("impl_trait") and fn.get("vis") == "Public":
            methods[fn["name"]] = d      # (private helpers are inlined into the public methods: no law of their own)
    # the From conversion into (Option<T>, Option<E>)
    for d, fn in f.fns.items():
        if fn["name"] == "from" and fn.get("impl_trait") == "std::convert::From" and fn["inputs"] and f.ty(fn["inputs"][0]).is_adt(AR):
            methods["from"] = d
    expected = ["is_completed", "is_failed", "was_killed", "stopped_normally", "is_startup_failed", "is_runtime_failed",
                "is_cleanup_failed", "is_stop_failed", "has_actor", "actor", "into_actor", "error", "into_error", "to_result", "from"]
    for nm in expected:
        run.require(nm in methods, "O5.3", "accessor-present:%s" % nm, "ActorResult::%s not found" % nm, "found", )
    unknown = sorted(set(methods) - set(expected))
    run.require(not unknown, "O5.3", "accessor-unspecified", "ActorResult methods without a law in the checker: %s (add the law before claiming them)" % unknown,
                "all %d methods have a law" % len(methods))
    for nm in expected:
        d = methods.get(nm)
        if not d:
            continue
        body = f.body(d)
        if body is None:
            run.fail("O5.3", "law:%s" % nm, "no body for %s" % d)
            continue
        run.count_body(body)
        byref = f.ty(f.fns[d]["inputs"][0]).k in ("ref", "refmut")
        bad = []
        n = 0
        for s in shapes():
            it = Interp(f)
            try:
                res = it.table(body, [("ref", s) if byref else s])
            except (mi.Unsupported, mi.Infeasible) as e:
                bad.append("cannot evaluate %s on %s: %s" % (nm, mi.show(s), e))
                continue
            want = spec(nm, s)
            for p, v in res:
                n += 1
                if p.effects:
                    bad.append("%s has side effects %s" % (nm, p.effects[:2]))
                if v != want:
                    bad.append("%s(%s) = %s, law says %s" % (nm, mi.show(s), mi.show(v), mi.show(want)))
        fn_span = f.span(f.fns[d]["span"]).loc
        run.require(not bad, "O5.3", "law:%s" % nm, "; ".join(bad[:3]), "decision table over 18 shapes (%d outcomes) equals the law" % n, loc=fn_span)
        if nm in ("was_killed", "from"):
            run.sample({"rule": "O5.3", "method": nm, "shapes": 18, "outcomes": n, "example": {"in": mi.show(shapes()[3]), "out": mi.show(spec(nm, shapes()[3]))}})
