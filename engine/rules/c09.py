"""C09 - mailbox capacity is a hard bound with waiting (not dropping) back-pressure."""
import lifecycle
import sendpaths
import minterp as mi
from minterp import Interp, sym, choice, ok, err, B
from rules import sendrules as sr
from rules.common import cfg_of, tracer_of, live_calls, fn_of, loc_of, all_calls, chan_of
from prov import strip_wrappers, strip_refs, show
from cfg import callee, const_int, is_panic_call

LEVEL = "other"
TRUSTED = ["T1", "T7", "T8"]
NOT_DECIDED = ["the occupancy of the tokio channel itself (holds at most n, waits iff full) is axiom T1"]
EXPLANATION = (
    "Given tokio's bounded-channel semantics (T1), the bound is the number handed to mpsc::channel. Decided statically: the capacity "
    "argument of the one mailbox channel is exactly the mailbox_capacity parameter of spawn_with_mailbox_capacity (provenance: no "
    "arithmetic, max or constant), the call is dominated by the true edge of `capacity > 0` whose other edge panics, spawn passes "
    "CONFIGURED.get().copied().unwrap_or(DEFAULT) unchanged with DEFAULT evaluating to 32, set_default_mailbox_capacity is decided by "
    "its full decision table (0 => Err without writing; otherwise OnceLock::set(size) decides), the OnceLock is written nowhere else "
    "(or, equivalently, the default lives in an atomic whose initial value is a reserved marker that the validator rejects: claimed "
    "only by a strong compare_exchange(marker, size), never by swap/store/fetch_*, read by a single load), "
    "every enqueue uses the waiting send/blocking_send on that channel (stop marker included) and no unbounded channel exists.")

DEFAULT_CAPACITY = 32


def run(run):
    for cfgname, f in run.for_configs():
        sp = sendpaths.get(f)
        lc = lifecycle.get(f)
        if lc.errors or lc.body is None:
            for e in lc.errors:
                run.fail("O9.0", "lifecycle-anchor", e)
            continue
        res = sr.one_queue(run, f, sp, lc, rule="O9.5")
        if res:
            capacity_argument(run, f, res[0], res[1])
        spawn_default(run, f)
        set_default(run, f)
        sr.mailbox_sender_methods(run, f, sp, rule="O9.5")
        sr.stop_marker(run, f, sp, rule="O9.5")


def capacity_argument(run, f, b, blk):
    run.count_body(b)
    tr = tracer_of(b)
    cfg = cfg_of(b)
    a = tr.norm(tr.call_args(blk.idx)[0])
    fnname = b.defn
    is_param = a[0] == "param" and f.ty(b.locals[a[1]]["ty"]).k == "uint"
    run.require(is_param, "O9.1", "capacity-is-parameter", "the mailbox channel of %s is created with capacity %s, not the caller's number unchanged" % (fnname, show(a)),
                "mpsc::channel(mailbox_capacity): the parameter itself", loc=loc_of(b, blk))
    fn = f.fns.get(b.defn)
    run.require(fn is not None and fn["vis"].startswith("Public") or "Public" in (fn or {}).get("vis", ""), "O9.1", "capacity-fn-public", "the function creating the mailbox is not the public spawn_with_mailbox_capacity (%s)" % b.defn,
                "created in public fn %s" % b.defn)
    if not is_param:
        return
    p = a[1]
    # O9.2: dominated by the true edge of `param > 0`, other edge panics
    ok_guard = False
    for sb in b.blocks:
        t = sb.term
        if t["k"] != "switch" or sb.idx not in cfg.live:
            continue
        subj = tr.norm(tr.operand(t["discr"]))
        form = _positive_test(subj, p)
        if form is None:
            continue
        # arms: value 1 => test true
        true_t = None
        false_t = None
        for v, tgt in t["arms"]:
            if int(v) == 0:
                false_t = tgt
            else:
                true_t = tgt
        if true_t is None:
            true_t = t["otherwise"]
        if false_t is None:
            false_t = t["otherwise"]
        pos_t, neg_t = (true_t, false_t) if form == "positive" else (false_t, true_t)
        if (pos_t == blk.idx or cfg.dominates(pos_t, blk.idx)) and _only_panics(b, cfg, neg_t):
            ok_guard = True
    run.require(ok_guard, "O9.2", "capacity-zero-rejected", "the mailbox channel creation is not guarded by `capacity > 0` with a panicking else-branch (capacity 0 would reach tokio or be accepted)",
                "channel creation dominated by `mailbox_capacity > 0`; the other edge panics", loc=loc_of(b, blk))


def _positive_test(t, p):
    """'positive' if t is true iff param p > 0, 'negative' if true iff p == 0."""
    if t[0] != "binop":
        return None
    op, a, b = t[1], t[2], t[3]
    def isp(x):
        return x == ("param", p)
    def isz(x, n=0):
        return x == ("int", n)
    if (op == "Gt" and isp(a) and isz(b)) or (op == "Lt" and isz(a) and isp(b)) or (op == "Ne" and ((isp(a) and isz(b)) or (isz(a) and isp(b)))) or \
            (op == "Ge" and isp(a) and isz(b, 1)) or (op == "Le" and isz(a, 1) and isp(b)):
        return "positive"
    if (op == "Eq" and ((isp(a) and isz(b)) or (isz(a) and isp(b)))) or (op == "Lt" and isp(a) and isz(b, 1)) or (op == "Le" and isp(a) and isz(b)):
        return "negative"
    return None


def _only_panics(b, cfg, start):
    reach = cfg.reachable_from(start)
    ends = [x for x in reach if not cfg.succ[x]]
    return bool(ends) and all(b.blocks[x].term["k"] == "call" and is_panic_call(b.blocks[x].term) for x in ends)


def _none_arm_gives_constant(b, tr, get_bb):
    """In `match X.get() {..}`: the arm taken for None assigns a constant to the result and the Some arm the payload."""
    from rules.common import cfg_of
    nxt = b.blocks[b.blocks[get_bb].term["target"]]
    # find the switch on discriminant(get result)
    guard = 0
    while nxt.term["k"] in ("goto", "false_edge") and guard < 4:
        nxt = b.blocks[nxt.term["target"]]
        guard += 1
    if nxt.term["k"] != "switch":
        return False
    subj = tr.norm(tr.operand(nxt.term["discr"]))
    if not (subj[0] == "discr" and strip_wrappers(subj[1])[:2] == ("call", get_bb)):
        return False
    arms = {int(v): t for v, t in nxt.term["arms"]}
    none_t = arms.get(0)
    if none_t is None:
        return False
    # the None arm must not read the payload: no statement under it (before the join) uses downcast Some
    cfg = cfg_of(b)
    some_t = arms.get(1, nxt.term["otherwise"])
    only_none = cfg.reachable_from(none_t) - cfg.reachable_from(some_t) | {none_t}
    for bb in only_none:
        for st in b.blocks[bb].stmts:
            if st["k"] == "assign" and "Some" in str(st["rv"]):
                return False
    return True


def spawn_default(run, f):
    b = f.body("spawn")
    if not run.require(b is not None, "O9.3", "spawn-present", "fn spawn not found", "found"):
        return
    run.count_body(b)
    tr = tracer_of(b)
    calls = [k for k in live_calls(b) if callee(k.term) == "spawn_with_mailbox_capacity"]
    if not run.require(len(calls) == 1, "O9.3", "spawn-delegates", "spawn does not delegate to spawn_with_mailbox_capacity exactly once", "delegates once"):
        return
    # the capacity argument as a path-wise denotation (pathsem): independent of the spelling
    # (`get().copied().unwrap_or(D)`, `match get() {Some(&v) => v, None => D}`, `get().map_or(D, |&v| v)`, a helper fn, ...)
    import pathsem
    cfg_static = configured_static(f)
    model = cell_model(f)
    good = False
    dflt = None
    shown = "?"
    try:
        den = pathsem.denotation(f, b, project=lambda r: r[2][1] if r[0] == "callv" and r[1] == "spawn_with_mailbox_capacity" and len(r[2]) > 1 else ("?", r),
                                 no_inline={"spawn_with_mailbox_capacity"})
        shown = pathsem.show(den)
        ent = sorted(den, key=str)
        if len(ent) == 2 and all(len(c) == 1 for c, _ in ent):
            (k1, p1), = ent[0][0]
            (k2, p2), = ent[1][0]
            if k1 == k2 and k1[0] == "some" and {p1, p2} == {True, False}:
                g = k1[1]
                st = None
                if g[0] == "callv" and g[1].startswith("std::sync::OnceLock") and g[1].endswith("::get") and g[2]:
                    a_ = g[2][0]
                    a_ = a_[1] if a_[0] == "ref" else a_
                    st = a_[1] if a_[0] == "static" else None
                vs = {p: v for (c, v) in ent for (k, p) in c}
                dflt = vs[False]
                good = st is not None and st == cfg_static and vs[True] == ("payload", g) and dflt[0] == "int" and model[0] == "oncelock"
            elif k1 == k2 and k1[0] == "callv" and k1[1].startswith(ATOMIC) and k1[1].endswith("::load") and {p1, p2} == {True, False} and model and model[0] == "atomic":
                # `match CELL.load() { 0 => D, n => n }`: one load; "is it non-zero" decides, the non-zero value itself is passed on
                a_ = k1[2][0] if k1[2] else ("?",)
                for _ in range(4):      # `&CELL` or, behind a private newtype, `&CELL.0`
                    if a_[0] == "ref":
                        a_ = a_[1]
                    elif a_[0] == "field":
                        a_ = a_[2]
                    else:
                        break
                st = a_[1] if a_[0] == "static" else None
                vs = {p: v for (c, v) in ent for (k, p) in c}
                dflt = vs[False]
                good = st is not None and st == cfg_static and model[2] == 0 and vs[True] == k1 and dflt[0] == "int"
    except pathsem.TooComplex as e:
        shown = "not a loop-free computation (%s)" % e
    run.require(good, "O9.3", "spawn-capacity-expression", "spawn passes { %s } as capacity (expected: the configured value if set_default_mailbox_capacity was called, else the built-in default, unchanged)" % shown[:300],
                "capacity = the configured value when there is one, else the default: { %s }" % shown[:200], loc=loc_of(b, calls[0]))
    run.require(dflt == ("int", DEFAULT_CAPACITY), "O9.3", "default-is-32", "the built-in default capacity evaluates to %s (documented: 32)" % (dflt,),
                "DEFAULT_MAILBOX_CAPACITY == 32")
    a0 = tr.norm(tr.call_args(calls[0].idx)[0])
    run.require(a0 == ("param", 1), "O9.3", "spawn-args-forwarded", "spawn does not forward its args", "args forwarded")


ATOMIC = "std::sync::atomic::Atomic"


def cell_model(f):
    """How the process-wide configured default is stored. Two representations are understood:
       ("oncelock", static)          - a OnceLock that set_default_mailbox_capacity `set`s, read with `get`;
       ("atomic", static, sentinel)  - an atomic integer whose initial value `sentinel` means "not configured", claimed with
                                       compare_exchange(sentinel, n) and read with `load`.
    Anything else: None (the rules fail closed)."""
    from rules.c13 import _static_of
    body = f.body("set_default_mailbox_capacity")
    if body is None:
        return None
    tr = tracer_of(body)
    once, atom = set(), set()
    for fam in f.family("set_default_mailbox_capacity"):
        tr = tracer_of(fam)
        for blk in live_calls(fam):
            fn = fn_of(blk)
            d = fn.get("def") or ""
            if not blk.term["args"]:
                continue
            pl = blk.term["args"][0].get("move") or blk.term["args"][0].get("copy")
            st = _static_of(fam, tr, pl) if pl else None
            if not st:
                continue
            if fn.get("name") == "set" and d.startswith("std::sync::OnceLock"):
                once.add(st)
            elif d.startswith(ATOMIC):
                atom.add(st)
    if len(once) == 1 and not atom:
        return ("oncelock", once.pop())
    if len(atom) == 1 and not once:
        st = atom.pop()
        sb = f.body(st)
        sent = None
        if sb is not None:
            news = [k for k in live_calls(sb) if (fn_of(k).get("def") or "").startswith(ATOMIC) and fn_of(k).get("name") == "new"]
            if len(news) == 1:
                sent = const_int(news[0].term["args"][0])
        return ("atomic", st, sent)
    return None


def configured_static(f):
    m = cell_model(f)
    return m[1] if m else None


def _static_arg(b, tr, call_bb):
    from rules.c13 import _static_of
    a = b.blocks[call_bb].term["args"][0]
    pl = a.get("move") or a.get("copy")
    return _static_of(b, tr, pl) if pl else None


def set_default(run, f):
    d = "set_default_mailbox_capacity"
    body = f.body(d)
    if not run.require(body is not None, "O9.4", "set_default-present", "set_default_mailbox_capacity not found", "found"):
        return
    run.count_body(body)
    writes = []

    def bi_set(it, fn, args, path, body_, blk, depth):
        path.effects.append(("OnceLock::set", mi.show(args[1])))
        return [(path, choice("set", [ok(("unit",)), err(args[1])]))]

    model = cell_model(f)

    def bi_cas(it, fn, args, path, body_, blk, depth):
        # compare_exchange(expected, new): stores `new` only if the cell holds `expected`; exactly one caller can succeed
        path.effects.append(("OnceLock::set", mi.show(args[2]), "cas", mi.show(args[1]), fn.get("name")))
        return [(path, choice("set", [ok(args[1]), err(sym("current"))]))]

    def bi_overwrite(it, fn, args, path, body_, blk, depth):
        path.effects.append(("overwrite", fn.get("name"), mi.show(args[1]) if len(args) > 1 else None))
        unset = model[2] if model and model[0] == "atomic" and model[2] is not None else 0
        return [(path, choice("previous", [("i", unset), ("i", unset + 12345)]))]       # the value that was there: unconfigured / something else

    def only_atomic(bi):
        return lambda it, fn, args, path, body_, blk, depth: bi(it, fn, args, path, body_, blk, depth) if (fn.get("def") or "").startswith(ATOMIC) else None
    atomic_bi = {"name:compare_exchange": only_atomic(bi_cas), "name:compare_exchange_weak": only_atomic(bi_cas)}
    for nm in ("swap", "store", "fetch_add", "fetch_sub", "fetch_max", "fetch_min", "fetch_or", "fetch_and", "fetch_xor", "fetch_nand", "fetch_update"):
        atomic_bi["name:" + nm] = only_atomic(bi_overwrite)
    bad = []
    tables = {}
    for size, label in ((("i", 0), "zero"), (("i", 7), "nonzero")):
        it = Interp(f, builtins=dict({"std::sync::OnceLock::<T>::set": bi_set}, **atomic_bi))
        try:
            res = it.table(body, [size])
        except (mi.Unsupported, mi.Infeasible) as e:
            bad.append("cannot evaluate: %s" % e)
            continue
        for p, v in res:
            over = [e for e in p.effects if e[0] == "overwrite"]
            if over:
                bad.append("size %s: the configured default is written unconditionally (%s): a rejected second configuration would still replace the first" % (size[1], ", ".join("%s(%s)" % (e[1], e[2]) for e in over)))
            for e in p.effects:
                if e[0] == "OnceLock::set" and len(e) > 2:
                    if e[4] != "compare_exchange":
                        bad.append("%s may fail although the cell is unconfigured: the first configuration could be rejected" % e[4])
                    if model is None or model[0] != "atomic" or model[2] is None or e[3] != str(model[2]):
                        bad.append("compare_exchange expects %s, the cell's initial (unconfigured) value is %s" % (e[3], model[2] if model and len(model) > 2 else None))
            sets = [e for e in p.effects if e[0] == "OnceLock::set"]
            variant = v[2] if v[0] == "enum" else None
            errv = v[3][0][2] if variant == "Err" and v[3][0][0] == "enum" else None
            tables.setdefault(label, []).append((p.assume.get("set"), variant, errv, len(sets)))
            if label == "zero":
                if variant != "Err" or errv != "MailboxCapacity" or sets:
                    bad.append("size 0: returns %s with %d write(s)" % (mi.show(v), len(sets)))
            else:
                if len(sets) != 1 or sets[0][1] != "7":
                    bad.append("size 7: OnceLock::set called %s" % sets)
                outcome = p.assume.get("set", "")
                if outcome.startswith("Result::Ok") and variant != "Ok":
                    bad.append("first configuration returns %s" % mi.show(v))
                if outcome.startswith("Result::Err") and (variant != "Err" or errv != "MailboxCapacity"):
                    bad.append("second configuration returns %s" % mi.show(v))
    run.require(not bad and len(tables.get("nonzero", [])) == 2, "O9.4", "set_default-table", "; ".join(bad) or "unexpected table %s" % tables,
                "0 => Err(MailboxCapacity) without writing; n>0 => OnceLock::set(n): Ok => Ok(()), already set => Err(MailboxCapacity)", loc=f.span(f.fns[d]["span"]).loc)
    run.sample({"rule": "O9.4", "config": run.cur_config, "table": tables})
    # the OnceLock is written nowhere else
    from rules.c13 import _static_of
    cfgs = configured_static(f)
    run.require(cfgs is not None, "O9.4", "configured-static", "cannot identify the OnceLock static that set_default_mailbox_capacity writes", "static %s" % cfgs)
    if model and model[0] == "atomic":
        run.require(model[2] == 0, "O9.4", "sentinel-is-rejected-value", "the cell's initial value %s is not the value set_default_mailbox_capacity rejects (0): a legal capacity would read as 'not configured'" % (model[2],),
                    "the unconfigured marker 0 can never be stored: size 0 is rejected before any write")
    wr = []
    for b, blk in all_calls(f):
        tr = tracer_of(b)
        for a in blk.term["args"][:1]:
            pl = a.get("move") or a.get("copy")
            if pl is not None and cfgs is not None and _static_of(b, tr, pl) == cfgs:
                wr.append((fn_of(blk).get("name"), b.name))
    wname = "set" if not (model and model[0] == "atomic") else "compare_exchange"
    others = [w for w in wr if w[0] not in ("get", "load") and not (w[0] == wname and w[1] == d)]
    run.require(not others and (wname, d) in wr, "O9.4", "oncelock-writers", "the capacity OnceLock is also used by %s" % others, "OnceLock written only by set_default_mailbox_capacity (uses: %s)" % sorted(set(wr)))
