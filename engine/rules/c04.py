"""C04 - lifecycle hooks run in order: on_start once, work, then on_stop at most once."""
import lifecycle
from rules.common import all_calls, fn_of, loc_of, count_bodies
from cfg import callee

LEVEL = "other"
TRUSTED = ["T4", "T6", "T8", "T9"]
NOT_DECIDED = []
EXPLANATION = (
    "Static decision of the lifecycle order on the pre-lowering MIR of the lifecycle coroutine under every analysed "
    "feature set: dominance / reachability obligations on its CFG (on_start once, before and dominating every other "
    "hook; nothing after on_stop; on_stop on every non-start-failure exit) plus an exhaustive abstract exploration "
    "(CFG x constant store x sticky outcome flags) that evaluates the `killed` argument of every on_stop call on every "
    "path. Causes are only observed at the one select!, so all arrival orders are covered by the path quantifier.")


def run(run):
    for cfgname, f in run.for_configs():
        lc = lifecycle.get(f)
        if lc.errors or lc.body is None:
            for e in lc.errors:
                run.fail("O4.0", "lifecycle-anchor", e)
            continue
        run.count_body(lc.body)
        check_lifecycle(run, lc)
        check_crate_wide(run, f)
        # "killed=true iff the actor is ending because a kill() signal was consumed": the lifecycle takes *any* value received
        # on the control channel for a kill, so the only thing ever sent on that channel must be kill()'s signal (C06 rule O6.1)
        from rules import c06
        c06.control_channel(run, f)


def check_lifecycle(run, lc):
    b, cfg = lc.body, lc.cfg
    name = "lifecycle"
    hooks = lc.hooks
    # O4.1 on_start exactly once, outside any loop, dominating everything else
    st = hooks["on_start"]
    if not run.require(len(st) == 1, "O4.1", "on_start-call-sites", "expected exactly one on_start call in the lifecycle, found %d" % len(st),
                       "on_start called at one site", loc=lc.loc(st[0]) if st else None):
        return
    s0 = st[0]
    run.require(not cfg.in_cycle(s0), "O4.1", "on_start-not-in-loop", "on_start call is inside a loop", "on_start call is not in a cycle", loc=lc.loc(s0))
    si = [i for i in lc.switch_info.values() if i["cls"] == ("hook", "on_start", s0) and i["kind"] == "discr"]
    polls = lc.hook_awaits.get(s0, [])
    if not run.require(len(polls) == 1 and len(si) == 1 and "Ok" in si[0]["arms"] and "Err" in si[0]["arms"], "O4.1", "on_start-awaited",
                       "cannot establish that the on_start future is awaited once and its Result is matched (polls=%d, matches=%d)" % (len(polls), len(si)),
                       "on_start future awaited in place, outcome matched Ok/Err", loc=lc.loc(s0)):
        return
    ok_arm, err_arm = si[0]["arms"]["Ok"], si[0]["arms"]["Err"]
    others = [(h, bb) for h in ("on_run", "on_stop", "handle_message") for bb in hooks[h]]
    for need in ("on_run", "on_stop", "handle_message"):
        run.require(len(hooks[need]) >= 1, "O4.1", "hook-present:%s" % need, "no %s call found in the lifecycle (anchor missing)" % need, "%d call site(s)" % len(hooks[need]))
    # path-sensitive (tagreach): the outcome of on_start may travel as a Result through an (inlined) start-up helper and be
    # tested again by its caller; "dominated by the Ok arm" is stated as "unreachable on any feasible path avoiding it"
    import tagreach
    tg = tagreach.TagReach(b_ := lc.body, cfg)
    without_ok = tg.reach(0, avoid={ok_arm})
    for h, bb in others:
        run.require(bb not in without_ok, "O4.1", "start-ok-dominates:%s" % h,
                    "%s call is reachable without on_start having completed successfully" % h,
                    "every feasible path to this %s call passes the Ok outcome of on_start" % h, loc=lc.loc(bb))
    if lc.poll_fn_bb is not None:
        run.require(lc.poll_fn_bb not in without_ok, "O4.1", "start-ok-dominates:select", "select! reachable without successful on_start",
                    "the select! is reachable only through the Ok outcome of on_start", loc=lc.loc(lc.poll_fn_bb))
    # O4.2 after a failed on_start: straight to return, no hook, no select
    after = tg.reach(err_arm)
    bad = [(h, bb) for h, bb in others if bb in after] + ([("select", lc.poll_fn_bb)] if lc.poll_fn_bb in after else [])
    run.require(not bad, "O4.2", "start-err-no-hooks", "after a failed on_start the lifecycle can still reach: %s" % bad,
                "Err outcome of on_start reaches only `return` (no hook, no select)", loc=lc.loc(err_arm))
    exits = [x for x in after if not cfg.succ[x]]
    nonret = [x for x in exits if b.blocks[x].term["k"] not in ("return", "unreachable") and not lc_is_panic(b, x)]
    run.require(not nonret, "O4.2", "start-err-exits", "unexpected exit kinds after failed on_start: %s" % nonret, "all exits after Err are returns")
    # O4.3 nothing after on_stop
    for sbb in hooks["on_stop"]:
        aft = cfg.reach_after(sbb)
        bad = [(h, bb) for h in hooks for bb in hooks[h] if bb in aft]
        if lc.poll_fn_bb in aft:
            bad.append(("select", lc.poll_fn_bb))
        bad += [("recv", r) for k in lc.recvs for r in lc.recvs[k] if r in aft]
        run.require(not bad, "O4.3", "after-on_stop:%s" % site_key(lc, sbb), "after on_stop the lifecycle can reach %s" % [(h, lc.loc(x)) for h, x in bad],
                    "no hook, recv or select reachable after this on_stop call", loc=lc.loc(sbb))
        polls = lc.hook_awaits.get(sbb, [])
        run.require(len(polls) == 1, "O4.7", "awaited:%s" % site_key(lc, sbb), "on_stop future is not awaited exactly once in the lifecycle task (%d)" % len(polls),
                    "on_stop future awaited in place", loc=lc.loc(sbb))
    for hbb in hooks["handle_message"]:
        polls = lc.hook_awaits.get(hbb, [])
        run.require(len(polls) == 1, "O4.7", "awaited:handle_message", "handler future is not awaited exactly once in the lifecycle task (%d)" % len(polls),
                    "handler future awaited in place", loc=lc.loc(hbb))
    for rbb in hooks["on_run"]:
        in_sel = any(br["call_bb"] == rbb for br in lc.sel_branches)
        run.require(in_sel or len(lc.hook_awaits.get(rbb, [])) == 1, "O4.7", "awaited:on_run", "on_run future is neither a select! branch nor awaited in place",
                    "on_run future is polled by the select! of the lifecycle task", loc=lc.loc(rbb))
    # O4.4 / O4.5 via the abstract exploration
    ai = lc.explore()
    run.require(not ai.exhausted, "O4.4", "exploration-complete", "abstract exploration hit the state limit", "%d abstract states, %d transitions" % (len(ai.states), ai.edges))
    run.extra["states"] = run.extra.get("states", 0) + len(ai.states)
    run.extra["transitions"] = run.extra.get("transitions", 0) + ai.edges
    rets = cfg.exits(("return",))
    run.require(len(rets) >= 1, "O4.4", "return-exists", "lifecycle has no return", "%d return block(s)" % len(rets))
    nret = 0
    bad_states = []
    for r in rets:
        for s in ai.states_at(r):
            nret += 1
            fl = s[2]
            cnt = dict(s[3])
            n_stop = cnt.get("on_stop", 0)
            if "on_start_err" in fl:
                if n_stop != 0:
                    bad_states.append(("on_stop after failed on_start", sorted(fl)))
            else:
                if n_stop != 1 or not ("on_stop_ok" in fl or "on_stop_err" in fl):
                    bad_states.append(("exit with on_stop count %d" % n_stop, sorted(x for x in fl if "@" not in x)))
            if cnt.get("on_start", 0) != 1:
                bad_states.append(("exit with on_start count %d" % cnt.get("on_start", 0), sorted(fl)))
    run.require(not bad_states and nret > 0, "O4.4", "exit-states", "exit states violating the hook order: %s" % bad_states[:3],
                "%d abstract return states: on_start once; on_stop exactly once and completed unless on_start failed" % nret, loc=lc.loc(rets[0]) if rets else None)
    run.sample({"rule": "O4.4", "config": run.cur_config, "return_states": nret, "lifecycle_body": b.name, "blocks": len(b.blocks)})
    # O4.5 killed argument
    for sbb in hooks["on_stop"]:
        term = b.blocks[sbb].term
        if len(term["args"]) < 3:
            run.fail("O4.5", "killed-arg:%s" % site_key(lc, sbb), "on_stop call without a killed argument", loc=lc.loc(sbb))
            continue
        states = ai.states_at(sbb)
        problems = []
        seen_vals = set()
        for s in states:
            v = ai.operand_value_at_term(s, term["args"][2])
            consumed = "ctrl_some" in s[2]
            if v is None or v[0] != "c":
                problems.append("value of `killed` not determined on a path")
            elif bool(v[1]) != consumed:
                problems.append("on_stop(killed=%s) on a path where a Terminate signal was %s" % (bool(v[1]), "consumed" if consumed else "not consumed"))
            else:
                seen_vals.add((bool(v[1]), consumed))
        run.require(states and not problems, "O4.5", "killed-arg:%s" % site_key(lc, sbb), "; ".join(sorted(set(problems))) or "on_stop call unreachable in the abstract exploration",
                    "killed argument == (Terminate consumed) on all %d abstract paths %s" % (len(states), sorted(seen_vals)), loc=lc.loc(sbb))
        run.sample({"rule": "O4.5", "config": run.cur_config, "site": lc.loc(sbb), "abstract_states": len(states), "values(killed,consumed)": sorted(seen_vals)})
    # the ctrl_some flag really exists (anchor for O4.5): a switch on the Option<ControlSignal> received
    have_ctrl = any(i["cls"] and i["cls"][:2] == ("recv", "ctrl") and "Some" in i["arms"] and "None" in i["arms"] for i in lc.switch_info.values())
    have_ctrl = have_ctrl or lc.ctrl_split_by_predicate()
    run.require(have_ctrl, "O4.5", "ctrl-outcome-matched", "cannot find the match on the received Option<ControlSignal>", "received control signal matched Some/None")


def lc_is_panic(body, bb):
    from cfg import is_panic_call
    t = body.blocks[bb].term
    return t["k"] == "call" and is_panic_call(t)


def site_key(lc, bb):
    """Stable key for a hook call site: which select arm / stage dominates it."""
    cfg = lc.cfg
    tags = []
    for sbb, info in sorted(lc.switch_info.items()):
        if info["cls"] is None:
            continue
        for nm, tgt in sorted(info["arms"].items()):
            others = [t2 for n2, t2 in info["arms"].items() if n2 != nm]
            if tgt in others:
                continue
            if cfg.dominates(tgt, bb) and tgt != sbb:
                c = info["cls"]
                tags.append("%s:%s=%s" % (c[0], c[1] if len(c) > 1 else "", nm))
    return "|".join(tags) or "top"


def check_crate_wide(run, f):
    """O4.6: no hook call on unwind paths, no catch_unwind anywhere in the crate."""
    n_calls = 0
    bad = []
    cu = []
    for body, blk in all_calls(f):
        n_calls += 1
        if blk.cleanup and lifecycle.hook_of(blk.term):
            bad.append((body.name, loc_of(body, blk)))
        p = (fn_of(blk).get("path") or "")
        if p.endswith("::catch_unwind") or fn_of(blk).get("name") == "catch_unwind":
            cu.append((body.name, loc_of(body, blk)))
    run.stats["call_sites"] += n_calls
    run.require(not bad, "O4.6", "no-hook-in-cleanup", "hook called on an unwind path: %s" % bad, "no hook call in any cleanup block (%d call sites scanned)" % n_calls)
    run.require(not cu, "O4.6", "no-catch_unwind", "catch_unwind used: %s" % cu, "catch_unwind: 0 sites in %d call sites" % n_calls)
    # O4.7 hooks take &mut self
    for nm in ("actor::Actor::on_run", "actor::Actor::on_stop", "actor::Message::handle"):
        fn = f.fns.get(nm)
        if not run.require(fn is not None, "O4.7", "sig-present:%s" % nm, "trait method %s not found" % nm, "found"):
            continue
        t0 = f.ty(fn["inputs"][0]) if fn["inputs"] else None
        run.require(t0 is not None and t0.k == "refmut", "O4.7", "mut-self:%s" % nm, "%s does not take &mut self (%s)" % (nm, t0), "%s takes %s" % (nm, t0))
