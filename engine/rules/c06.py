"""C06 - kill() pre-empts the mailbox and never blocks."""
import lifecycle
import minterp as mi
from minterp import Interp, enum, sym, ok, err, choice
from rules.common import all_calls, fn_of, loc_of, tracer_of, cfg_of, is_tokio_mpsc_sender_method, live_calls
from prov import strip_refs, strip_wrappers, show
from cfg import callee, const_int

LEVEL = "other"
TRUSTED = ["T1", "T2", "T4", "T8", "T9"]
NOT_DECIDED = []
EXPLANATION = (
    "kill(): the complete decision table of the function (all try_send outcomes x all logging branches) returns Ok(()); it is not "
    "async, contains no suspension point, lock or blocking primitive (transitively through crate-local callees) and its only "
    "channel operation is try_send on the dedicated control channel, which is created with a constant capacity >= 1 and is used "
    "nowhere else for sending. Pre-emption: the lifecycle loop has exactly one select!, it is `biased;`, the control-channel recv "
    "branch precedes the mailbox recv branch which precedes on_run, the first two have no precondition (DSL facts of the macro "
    "call site mapped onto resolved calls), the poll closure contains no random start; every loop iteration starts at most one "
    "handler; the Some(_) arm leads to on_stop(killed=true) without a further handler (C04 rules re-evaluated here).")

BLOCKING_PATH_PREFIXES = (
    "std::sync::poison::mutex", "std::sync::mutex", "std::sync::poison::rwlock", "std::sync::poison::condvar", "std::sync::barrier",
    "std::sync::mpsc", "std::sync::mpmc", "std::thread", "std::io", "std::net", "std::fs", "std::process",
    "tokio::runtime", "tokio::task::blocking", "tokio::time::sleep", "futures_executor",
)
BLOCKING_NAMES = ("blocking_send", "blocking_recv", "block_on", "blocking_lock", "lock", "park", "sleep", "join", "wait", "recv", "recv_timeout")


def run(run):
    for cfgname, f in run.for_configs():
        kill_fn(run, f)
        control_channel(run, f)
        # "kill() never fails" also through the type-erased controls: their kill is the plain forwarder (C16 rule O16.1)
        from rules import c16
        n_erased = 0
        for d, fn in sorted(f.fns.items()):
            if fn.get("has_body") and fn.get("impl_trait") in c16.SIX and fn["name"] == "kill" and fn.get("impl_self") is not None:
                c16.trait_method(run, f, d, fn, fn["impl_trait"], f.ty(fn["impl_self"]))
                n_erased += 1
        run.require(n_erased >= 1, "O6.1", "erased-kill-present", "no type-erased kill found", "%d type-erased kill method(s) are forwarders" % n_erased)
        lc = lifecycle.get(f)
        if lc.errors or lc.body is None:
            for e in lc.errors:
                run.fail("O6.3", "lifecycle-anchor", e)
            continue
        run.count_body(lc.body)
        select_structure(run, lc)
        one_handler_per_iteration(run, lc)
        kill_arm(run, lc)
        # "it then runs on_stop(killed=true) ... and reports killed=true": the hook-order and exit-table rules of C04 / C05 on the
        # lifecycle (on_stop awaited in place to completion exactly once on the kill path, result built from that path)
        from rules import c04, c05
        c04.check_lifecycle(run, lc)
        c05.exit_table(run, lc)


def blocking_calls(f, root_def, depth=3, seen=None):
    """(body, blk, why) for blocking primitives reachable from the family of root_def."""
    seen = seen if seen is not None else set()
    out = []
    if root_def in seen or depth < 0:
        return out
    seen.add(root_def)
    for b in f.family(root_def):
        for blk in live_calls(b):
            fn = fn_of(blk)
            p = fn.get("path") or ""
            nm = fn.get("name") or ""
            if fn.get("krate") in ("std", "tokio", "futures_executor", "futures_util", "core") and (
                    any(p.startswith(x) for x in BLOCKING_PATH_PREFIXES) or (nm in BLOCKING_NAMES and fn.get("krate") in ("std", "tokio"))):
                out.append((b, blk, p or fn.get("def")))
            d = (fn.get("resolved") or {}).get("def") or fn.get("def")
            if d and fn.get("krate") == f.crate and f.body(d) is not None:
                out.extend(blocking_calls(f, d, depth - 1, seen))
    return out


def kill_fn(run, f):
    d = "actor_ref::ActorRef::<T>::kill"
    fn = f.fns.get(d)
    body = f.body(d)
    if not run.require(fn is not None and body is not None, "O6.1", "kill-present", "ActorRef::kill not found", "found"):
        return
    run.count_body(body)
    locd = f.span(fn["span"]).loc
    run.require(not fn["async"], "O6.1", "kill-not-async", "kill is async (it could suspend)", "kill is a plain fn", loc=locd)
    fam = f.family(d)
    yields = [(b.name, blk.idx) for b in fam for blk in b.blocks if blk.term["k"] == "yield"]
    run.require(not yields, "O6.1", "kill-no-suspension", "kill contains suspension points: %s" % yields, "no Yield terminator in kill and its closures")
    bl = blocking_calls(f, d)
    run.require(not bl, "O6.1", "kill-no-blocking", "kill can reach blocking primitives: %s" % [(b.name, loc_of(b, k), w) for b, k, w in bl][:3],
                "no lock / blocking / thread / runtime primitive reachable from kill (crate-local callees inlined to depth 3)")
    # its only channel operation: try_send on self.terminate_sender
    ar = f.adts.get("actor_ref::ActorRef")
    ctrl_idx = None
    if ar:
        for i, fld in enumerate(ar["variants"][0]["fields"]):
            t = f.ty(fld["ty"])
            if t.k == "adt" and t.defn == "tokio::sync::mpsc::Sender" and t.args and t.args[0].k == "adt" and t.args[0].defn == __import__("anchors").names(f).control:
                ctrl_idx = i
    run.require(ctrl_idx is not None, "O6.1", "actorref-has-control-sender", "ActorRef has no Sender<ControlSignal> field", "ActorRef field #%s is Sender<ControlSignal>" % ctrl_idx)
    chan_ops = []
    for b in fam:
        tr = tracer_of(b)
        for blk in live_calls(b):
            m = is_tokio_mpsc_sender_method(f, fn_of(blk))
            if m and m[0] not in ("clone", "is_closed", "downgrade"):
                chan_ops.append((b, blk, m))
    good = len(chan_ops) == 1 and chan_ops[0][2] == ("try_send", "ctrl")
    if good:
        b, blk, m = chan_ops[0]
        a0 = strip_refs(tracer_of(b).call_args(blk.idx)[0])
        good = a0 == ("field", ctrl_idx, ("param", 1)) or a0 == ("field", ctrl_idx, ("deref", ("param", 1)))
        a0s = show(a0)
    run.require(good, "O6.1", "kill-only-try_send", "kill's channel operations are %s (expected exactly try_send on self.terminate_sender)" % [(m, loc_of(b, k)) for b, k, m in chan_ops],
                "only channel operation: try_send(ControlSignal::Terminate) on self.terminate_sender", loc=locd)
    # decision table: every outcome is Ok(())
    def bi_try_send(it, fn_, args, path, body_, blk, depth):
        return [(path, choice("try_send", [ok(("unit",)), err(enum("tokio::sync::mpsc::error::TrySendError", "Full", sym("msg"))),
                                           err(enum("tokio::sync::mpsc::error::TrySendError", "Closed", sym("msg")))]))]
    it = Interp(f, builtins={"tokio::sync::mpsc::Sender::<T>::try_send": bi_try_send})
    try:
        res = it.table(body, [("ref", sym("self"))])
    except (mi.Unsupported, mi.Infeasible) as e:
        run.fail("O6.1", "kill-always-ok", "cannot compute the decision table of kill: %s" % e, loc=locd)
        return
    outcomes = {}
    for p, v in res:
        outcomes.setdefault(p.assume.get("try_send", "?"), set()).add(mi.show(v))
    bad = {k: v for k, v in outcomes.items() if v != {"Result::Ok(())"}}
    run.require(not bad and set(outcomes) >= {"Result::Ok(())", "Result::Err(TrySendError::Full(?msg))", "Result::Err(TrySendError::Closed(?msg))"},
                "O6.1", "kill-always-ok", "kill does not return Ok(()) for every try_send outcome: %s" % (bad or outcomes),
                "%d paths: Ok / Full / Closed all return Ok(())" % len(res), loc=locd)
    run.sample({"rule": "O6.1", "config": run.cur_config, "kill_paths": len(res), "outcomes": {k: sorted(v) for k, v in outcomes.items()}})


def control_channel(run, f):
    """O6.1 (who may send on the control channel) and O6.2 (its creation)."""
    ops = {}
    for b, blk in all_calls(f):
        m = is_tokio_mpsc_sender_method(f, fn_of(blk))
        if m and m[1] == "ctrl":
            ops.setdefault(m[0], []).append((b.name, loc_of(b, blk)))
    allowed = {"try_send", "clone", "downgrade", "is_closed"}
    extra = {k: v for k, v in ops.items() if k not in allowed}
    run.require(not extra, "O6.1", "control-sender-uses", "unexpected operations on Sender<ControlSignal>: %s" % extra,
                "Sender<ControlSignal> used only for %s" % sorted(ops))
    run.require(len(ops.get("try_send", [])) == 1, "O6.1", "control-try_send-sites", "try_send on the control channel at %s" % ops.get("try_send"),
                "exactly one try_send site (kill)")
    chans = {"ctrl": [], "mailbox": [], "other": []}
    for b, blk in all_calls(f):
        fn = fn_of(blk)
        if fn.get("krate") == "tokio" and fn.get("name") in ("channel", "unbounded_channel") and "mpsc" in (fn.get("def") or ""):
            ta = [f.ty(t) for t in fn.get("targs", [])]
            from rules.common import chan_of
            chans[chan_of(ta[0]) if ta else "other"].append((b, blk, fn.get("name")))
    ok_ = len(chans["ctrl"]) == 1 and chans["ctrl"][0][2] == "channel"
    cap = None
    if ok_:
        b, blk, _ = chans["ctrl"][0]
        cap = const_int(blk.term["args"][0])
    run.require(ok_ and cap is not None and cap >= 1, "O6.2", "control-channel-creation",
                "control channel creation: sites=%d capacity=%s (need one bounded channel with constant capacity >= 1)" % (len(chans["ctrl"]), cap),
                "mpsc::channel::<ControlSignal>(%s), separate from the mailbox channel" % cap,
                loc=loc_of(chans["ctrl"][0][0], chans["ctrl"][0][1]) if chans["ctrl"] else None)


def select_structure(run, lc):
    s = lc.select
    if not run.require(s is not None and "error" not in s, "O6.3", "select-site", "cannot parse the select! of the lifecycle loop: %s" % (s or {}).get("error"),
                       "one select! site", loc=lc.loc(lc.poll_fn_bb) if lc.poll_fn_bb else None):
        return
    loc = lc.loc(lc.poll_fn_bb)
    run.require(s["biased"], "O6.3", "select-biased", "the lifecycle select! is not `biased;` (branch polling order would be random)", "`biased;` present", loc=loc)
    kinds = [b["kind"] for b in lc.sel_branches]
    run.require(lc.dsl_ok, "O6.3", "select-dsl-maps", "select! DSL branches do not map onto the resolved branch futures", "every DSL branch future span contains its resolved root call", loc=loc)
    run.require(kinds == ["recv_ctrl", "recv_mailbox", "on_run"], "O6.3", "select-branch-order",
                "select! branch order is %s, expected control recv, mailbox recv, on_run" % kinds, "branch order: control recv < mailbox recv < on_run", loc=loc)
    br = s["branches"]
    for i in (0, 1):
        if i < len(br):
            run.require("cond" not in br[i], "O6.3", "select-no-precondition:%d" % i, "branch %d (%s) has a precondition `%s`" % (i, kinds[i] if i < len(kinds) else "?", br[i].get("cond")),
                        "branch %d unconditional" % i, loc=loc)
    run.require(not s.get("has_else"), "O6.3", "select-no-else", "select! has an else branch (it would complete without any event)", "no else branch", loc=loc)
    # cross-check in the expansion: no random start index
    cb = lc.f.body(lc.select_closure) if lc.select_closure else None
    if run.require(cb is not None, "O6.3", "select-poll-closure", "select! poll closure not found", "poll closure %s" % lc.select_closure):
        rng = [loc_of(cb, k) for k in live_calls(cb) if "thread_rng_n" in (callee(k.term) or "") or "rand" in (fn_of(k).get("path") or "")]
        run.require(not rng, "O6.3", "select-no-rng", "poll closure calls a random start (%s): not biased" % rng, "no thread_rng_n in the poll closure (%d blocks)" % len(cb.blocks))
        run.count_body(cb)
    # suspension points inside the loop: the select await and hook awaits only
    cfg = lc.cfg
    loop = cfg.reach_after(lc.poll_fn_bb) & _reaching(cfg, lc.poll_fn_bb)
    allowed_polls = set(lc.select_await)
    for hb, polls in lc.hook_awaits.items():
        allowed_polls.update(polls)
    other = [lc.loc(p) for p in lc.awaits if p in loop and p not in allowed_polls]
    run.require(not other, "O6.3", "loop-suspension-points", "the loop awaits something other than the select!/hooks at %s" % other,
                "suspension points in the loop: the select! and the hook futures only (%d)" % len([p for p in lc.awaits if p in loop]))
    run.sample({"rule": "O6.3", "config": run.cur_config, "biased": s["biased"], "branches": [{"future": b["future"][:60], "cond": b.get("cond"), "resolved": k} for b, k in zip(br, kinds)]})


def _reaching(cfg, target):
    seen = set()
    st = [target]
    while st:
        x = st.pop()
        for p in cfg.pred[x]:
            if p not in seen:
                seen.add(p)
                st.append(p)
    return seen


def one_handler_per_iteration(run, lc):
    hm = lc.hooks["handle_message"]
    if not run.require(len(hm) == 1, "O6.4", "handler-call-sites", "expected one handle_message call in the lifecycle, found %d" % len(hm), "one handler call site"):
        return
    h = hm[0]
    again = h in lc.cfg.reach_after(h, avoid={lc.poll_fn_bb})
    run.require(not again, "O6.4", "one-handler-per-iteration", "a second handler can start without going through the select! again",
                "every cycle through the handler call passes the select!", loc=lc.loc(h))


def kill_arm(run, lc):
    """The Some(_) arm: on_stop(killed=true) next, no handler in between (uses the exploration)."""
    ai = lc.explore()
    arm = None
    for bb, info in lc.switch_info.items():
        if info["cls"] and info["cls"][:2] == ("recv", "ctrl") and len(info["cls"]) == 3 and "Some" in info["arms"]:
            arm = info["arms"]["Some"]
    if arm is None and lc.ctrl_split_by_predicate() and len(lc.ctrl_branch_targets()) == 1:
        arm = lc.ctrl_branch_targets()[0]      # no match: the whole control-recv branch handles both cases, split by `is_some()`
    if not run.require(arm is not None, "O6.4", "kill-arm", "cannot find the Some(_) arm of the control-signal match", "found"):
        return
    reach = lc.cfg.reachable_from(arm)
    bad = [h for h in ("handle_message", "on_run") for bb in lc.hooks[h] if bb in reach]
    stops = [bb for bb in lc.hooks["on_stop"] if bb in reach]
    run.require(not bad and len(stops) == 1, "O6.4", "kill-arm-no-handler", "after a consumed Terminate the loop can reach %s / on_stop sites %d" % (bad, len(stops)),
                "after a consumed Terminate: exactly one on_stop site reachable, no handler, no on_run", loc=lc.loc(arm))
    for sbb in stops:
        term = lc.body.blocks[sbb].term
        vals = set()
        for s in ai.states_at(sbb):
            if "ctrl_some" in s[2]:
                v = ai.operand_value_at_term(s, term["args"][2]) if len(term["args"]) > 2 else None
                vals.add(v)
        run.require(vals == {("c", 1)}, "O6.4", "kill-arm-killed-true", "on_stop after a consumed Terminate receives killed=%s" % sorted(map(str, vals)),
                    "on_stop(killed=true) on every path through the Some(_) arm", loc=lc.loc(sbb))
