"""C18 - optional features never change messaging or lifecycle behaviour."""
import skeleton
from core import Run
from rules import c15

LEVEL = "other"
TRUSTED = ["T6", "T8"]
NOT_DECIDED = ["timing overhead of the features (not part of the property)"]
EXPLANATION = (
    "Configuration diff of behavioural skeletons: for every function family of the crate (fn item + nested closures / coroutines, "
    "including the wrapper bodies #[tracing::instrument] inserts) the graph of behaviour-relevant events (channel operations, hook "
    "calls, spawns, timers, thread/runtime calls, crate-local calls, constructions of ActorResult / Error / MailboxMessage / phase "
    "values, constant assignments to user bool variables, returns, panics; edges = 'reachable without passing another event') under "
    "each feature set must equal the default-feature skeleton after erasing an explicit additive allow-list (logging macros and "
    "tracing calls, clock reads, metrics collector/guard calls, Arc handling of the metrics handle, the ActorRef clone that feeds only "
    "the metrics guard, task-local scope / try_with, wait-for bookkeeping, pure getters and formatting). An added return/break, channel "
    "operation, timer, sleep, spawn, hook call, flag assignment or reordering shows up as a node or edge difference. The one "
    "non-neutral addition, the deadlock panic in ask, is allowed iff C15-O15.5 holds; it does not on the unchanged tree (finding F1'). "
    "The detection bookkeeping that runs for every ask (region under the graph lock, the guard's destructor) must contain no other "
    "panic site (unwrap / expect / assert): such a panic does not exist in the default build. "
    "All other checks are themselves evaluated under the feature sets.")


def keyless(e):
    return "%s:%s" % (e[0], e[1])


def soundness_of_detection(run, f, name):
    """The deadlock-detection feature is behaviour-neutral for cycle-free programs iff its panic
    is sound and the graph keeps no residue: that is property C15, whose structural rules are
    therefore evaluated here as well (O15.5 is reported through the O18.3 key above)."""
    import deadlock
    # the deliberate deadlock panic (in ask or in its extracted helper) is the one non-neutral
    # addition; it is allowed iff it is unreachable for cycle-free programs, i.e. iff C15-O15.5 holds
    shim5 = Run("C15", run.tier, run.seed)
    shim5.cur_config = name
    c15.edge_outlives_request(shim5, f)
    run.require(all(o["ok"] for o in shim5.obligations), "O18.3", "feature-adds-panic-reachable-without-cycle:deadlock-detection",
                "deadlock-detection adds a panic to ask that is reachable for programs without an ask cycle (C15-O15.5 fails: stale wait-for edge), so the feature is not behaviour-neutral",
                "the added deadlock panic is unreachable without an ask cycle (C15-O15.5 holds)")
    shim = Run("C15", run.tier, run.seed)
    shim.cur_config = name
    det = deadlock.get(f)
    if det.errors or det.body is None:
        run.fail("O18.3", "detection-anchor", "; ".join(det.errors) or "no detection body")
        return
    try:
        c15.edge_iff_guard(shim, f, det)
        c15.guard_lives_across_awaits(shim, f, det)
        c15.destructor(shim, f, det)
        c15.panic_condition(shim, f, det)
    except Exception as e:      # fail closed
        shim.fail("ENGINE", "c15-in-c18:%s" % type(e).__name__, "rule engine raised %r" % (e,))
    # the bookkeeping itself (the region of ask under the graph lock, the guard's destructor) runs for every
    # ask from an actor, cycle or not: a panic site in it is a panic the default build does not have, and one
    # under the lock poisons the mutex for every later ask. Only the panic-freedom obligations of the lock
    # discipline are necessary here (where the lock is taken, and the deliberate panic, are C12's / C15's).
    from rules import c12
    shim12 = Run("C12", run.tier, run.seed)
    shim12.cur_config = name
    try:
        c12.lock_discipline(shim12, f)
    except Exception as e:      # fail closed
        shim12.fail("ENGINE", "destructor-never-panics:c12-in-c18:%s" % type(e).__name__, "rule engine raised %r" % (e,))
    PANIC_FREE = ("no-panic-under-graph-lock", "destructor-never-panics", "drop-impl", "guard-region", "detection-anchor")
    shim.obligations += [o for o in shim12.obligations if o["anchor"].startswith(PANIC_FREE)]
    n_ok = 0
    for o in shim.obligations:
        if o["ok"]:
            n_ok += 1
        else:
            run.fail("O18.3", "detection-unsound:%s@%s" % (o["rule"], o["anchor"]),
                     "with [%s] a cycle-free program can be affected by the detection bookkeeping: %s" % (name, o["msg"]), loc=o["loc"])
    run.ok("O18.3", "detection-soundness-rules", "%d C15 soundness / residue obligations hold under [%s]" % (n_ok, name), nontrivial=False)


def audit_erased(run, f, allow, name, feature_only=()):
    """O18.4: the crate-local functions the allow-list erases as 'observation only' must
    themselves contain nothing behaviour-relevant: no channel operation, spawn, sleep, lock
    other than the wait-for map's, no panic - only counters, clock reads, map bookkeeping."""
    strict = skeleton.Allow(f, strict_local=True)
    detection_def = None
    if "deadlock-detection" in f.features:
        import deadlock
        dd = deadlock.get(f)
        detection_def = dd.body.defn if dd.body is not None and dd.is_helper else None
    # erased callees plus every function that exists only with the feature (incl. Drop impls,
    # which run implicitly and therefore never show up as call events)
    todo = sorted(set(allow.erased_local) | {d for d in feature_only if "::tests::" not in d})
    seen = set()
    while todo:
        d = todo.pop()
        if d in seen or f.body(d) is None:
            continue
        seen.add(d)
        nodes, _ = skeleton.skeleton(f, d, strict)
        def relevant(e):
            if e[0] == "panic" and d == detection_def:
                return False        # the deliberate deadlock panic: judged by O18.3 / C15, not here
            if e[0] in ("panic", "build"):
                return True
            if e[0] != "call":
                return False
            c = e[1].split("<")[0]
            if c in strict.erased_local | seen | set(todo):
                return False
            if f.body(c) is not None:
                return True                      # a crate-local function that is not observation-only
            return c.startswith(("tokio::", "std::thread", "std::process", "std::io", "std::fs", "std::net", "futures"))
        bad = sorted(e for e in nodes if relevant(e))
        calls_local = [e[1].split("<")[0] for e in nodes if e[0] == "call" and f.body(e[1].split("<")[0]) is not None]
        todo += [c for c in calls_local if c not in seen]
        short = d.replace("metrics::collector::", "")
        run.require(not bad, "O18.4", "observation-only:%s" % short, "with [%s], %s is erased as observation-only but performs %s" % (name, d, [(e[0], e[1]) for e in bad][:3]),
                    "%s contains only counters / clock reads / map bookkeeping" % short, nontrivial=False)


def run(run):
    names = list(run.facts)
    if "default" not in names:
        run.fail("O18.0", "default-config", "default feature set not extracted")
        return
    f0 = run.facts["default"]
    a0 = skeleton.Allow(f0)
    roots0 = skeleton.roots(f0)
    sk0 = {r: skeleton.skeleton(f0, r, a0) for r in roots0}
    for b in f0.fn_bodies():
        run.count_body(b)
    run.require(len(roots0) >= 120, "O18.0", "root-floor", "only %d function items in the default build" % len(roots0), "%d function families in the default build" % len(roots0))
    for name in names:
        if name == "default":
            continue
        run.cur_config = name
        f1 = run.facts[name]
        a1 = skeleton.Allow(f1)
        roots1 = set(skeleton.roots(f1))
        for b in f1.fn_bodies():
            run.count_body(b)
        missing = [r for r in roots0 if r not in roots1]
        run.require(not missing, "O18.1", "functions-kept", "functions of the default build that disappear with [%s]: %s" % (name, missing[:5]), "all %d default functions exist" % len(roots0))
        ndiff = 0
        for r in roots0:
            if r not in roots1:
                continue
            n0, e0 = sk0[r]
            n1, e1 = skeleton.skeleton(f1, r, a1)
            added, removed = n1 - n0, n0 - n1
            short = r.replace("actor_ref::ActorRef::<T>::", "ActorRef::")
            allowed_panic = set()
            if "deadlock-detection" in f1.features and r == "actor_ref::ActorRef::<T>::ask":
                allowed_panic = {e for e in added if e[0] == "panic"}
                if len(allowed_panic) > 1:
                    run.fail("O18.3", "feature-adds-panics:%s" % short, "deadlock-detection adds %d panic sites to ask" % len(allowed_panic))
                added = added - allowed_panic
            for e in sorted(added):
                ndiff += 1
                run.fail("O18.2", "added-event:%s:%s" % (short, keyless(e)), "with [%s], %s additionally performs %s %s" % (name, short, e[0], e[1]), loc=e[2])
            for e in sorted(removed):
                ndiff += 1
                run.fail("O18.2", "removed-event:%s:%s" % (short, keyless(e)), "with [%s], %s no longer performs %s %s" % (name, short, e[0], e[1]), loc=e[2])
            if not added and not removed:
                ea = {x for x in e1 - e0 if x[0] not in allowed_panic and x[1] not in allowed_panic}
                er = {x for x in e0 - e1}
                for x in sorted(ea):
                    ndiff += 1
                    run.fail("O18.2", "added-flow:%s:%s->%s" % (short, keyless(x[0]), keyless(x[1])), "with [%s], in %s control can flow from %s to %s (not possible with default features)" % (name, short, x[0][:2], x[1][:2]), loc=x[0][2] or x[1][2])
                for x in sorted(er):
                    ndiff += 1
                    run.fail("O18.2", "removed-flow:%s:%s->%s" % (short, keyless(x[0]), keyless(x[1])), "with [%s], in %s control can no longer flow from %s to %s" % (name, short, x[0][:2], x[1][:2]), loc=x[0][2] or x[1][2])
                if not ea and not er:
                    run.ok("O18.2", "skeleton-equal:%s" % short, "%d events, %d flows equal to default" % (len(n1), len(e1)), nontrivial=len(n1) > 1)
        run.sample({"rule": "O18.2", "config": name, "families_compared": len(roots0), "differences": ndiff, "functions_only_with_feature": len(roots1 - set(roots0))})
        audit_erased(run, f1, a1, name, sorted(roots1 - set(roots0)))
        if "deadlock-detection" in f1.features:
            soundness_of_detection(run, f1, name)
    run.cur_config = None
