"""Reusable rule functions over the send paths and the loop side (C01, C02, C03, C09, C17)."""
import lifecycle
import sendpaths
from sendpaths import norm_try, subterms
from rules.common import cfg_of, tracer_of, live_calls, fn_of, loc_of, all_calls, is_tokio_mpsc_sender_method, chan_of
from prov import strip_wrappers, strip_refs, show, fn_path
from cfg import callee, const_int

AR = "actor_ref::ActorRef"


def actorref_field_index(f, chan):
    ar = f.adts.get(AR)
    if not ar:
        return None
    for i, fld in enumerate(ar["variants"][0]["fields"]):
        t = f.ty(fld["ty"])
        if t.k == "adt" and t.defn == "tokio::sync::mpsc::Sender" and t.args and chan_of(t.args[0]) == chan:
            return i
    return None


def short_fn(root):
    return root.split("::")[-1]


def is_self_field(sp, body, term, idx):
    """term denotes `self.<field idx>` (through refs / captures) of the root fn's self parameter."""
    t = strip_refs(term)
    if t[0] == "field" and t[1] == idx:
        who = sp.resolve_to_root_param(body, t[2])
        return who[0] == "param" and who[2] == 1
    return False


# ---- O1.1 ----------------------------------------------------------------------------------
def envelope_types(run, f, rule="O1.1"):
    import anchors
    mm = f.adts.get(anchors.names(f).mailbox)
    if not run.require(mm is not None, rule, "mailboxmessage-adt", "MailboxMessage not found", "found"):
        return
    for v in mm["variants"]:
        has = any(f.ty(fl["ty"]).is_adt(AR) for fl in v["fields"])
        run.require(has, rule, "variant-carries-actorref:%s" % v["name"], "MailboxMessage::%s carries no ActorRef<T> (queued work would not keep the actor referenced)" % v["name"],
                    "MailboxMessage::%s owns an ActorRef<T>" % v["name"])
    for ch in ("mailbox", "ctrl"):
        run.require(actorref_field_index(f, ch) is not None, rule, "actorref-strong-sender:%s" % ch, "ActorRef has no strong Sender for the %s channel" % ch, "ActorRef owns a strong %s Sender" % ch)


# ---- O1.2 ----------------------------------------------------------------------------------
def envelope_constructions(run, f, sp, rule="O1.2"):
    midx = actorref_field_index(f, "mailbox")
    roots = []
    for site, flds, st in sp.envelopes:
        b = site.body
        run.count_body(b)
        tr = tracer_of(b)
        fnname = short_fn(site.root)
        roots.append(fnname)
        # payload = Box::new(<message parameter>) unsized
        pay = strip_wrappers(flds.get("payload"))
        okp = False
        if pay[0] == "call" and pay[2].startswith("std::boxed::Box") and pay[2].endswith("::new"):
            msg = sp.resolve_to_root_param(b, tr.norm(tr.call_args(pay[1])[0]))
            okp = msg[0] == "param" and msg[2] == 2
        run.require(okp, rule, "payload-is-message:%s" % fnname, "the envelope payload in %s is %s, not Box::new(<the message parameter>)" % (fnname, show(pay)),
                    "payload = Box::new(msg)", loc=site.loc)
        who = sp.resolve_to_root_param(b, flds.get("actor_ref"))
        run.require(who[0] == "clone_of_param" and who[2] == 1, rule, "envelope-carries-self-clone:%s" % fnname,
                    "the envelope's actor_ref in %s is %s, not self.clone()" % (fnname, show(who)), "actor_ref = self.clone()", loc=site.loc)
        # the aggregate flows into exactly one mailbox send on self.sender
        E = tr.norm(tr.rvalue(st["rv"]))
        sends = []
        for s2, m in sp.mailbox_ops:
            if s2.body.name == b.name and m in ("send", "blocking_send", "try_send", "send_timeout"):
                args = [tr.norm(a) for a in tr.call_args(s2.bb)]
                if len(args) > 1 and strip_wrappers(args[1]) == E:
                    sends.append((s2, m, args))
        if run.require(len(sends) == 1 and sends[0][1] in ("send", "blocking_send"), rule, "one-send:%s" % fnname,
                       "the envelope built in %s flows into %s mailbox send call(s) %s" % (fnname, len(sends), [m for _, m, _ in sends]),
                       "envelope enqueued by exactly one %s" % (sends[0][1] if sends else "send"), loc=site.loc):
            s2, m, args = sends[0]
            run.require(midx is not None and is_self_field(sp, b, args[0], midx), rule, "send-on-self-sender:%s" % fnname,
                        "the envelope of %s is sent on %s, not on self.sender" % (fnname, show(args[0])), "sent on self.sender", loc=s2.loc)
            cfg = cfg_of(b)
            run.require(not cfg.in_cycle(s2.bb), rule, "send-not-in-loop:%s" % fnname, "the mailbox send of %s is inside a loop (could enqueue twice)" % fnname, "send call executed at most once", loc=s2.loc)
            rets = cfg.exits(("return",))
            # every return is preceded by the send - or, in a function that dispatches, by the call of another delivery
            # function of this crate (one that builds an envelope itself, or the timeout primitive of the blocking API)
            import anchors
            deliver = {s3.root for s3, _, _ in sp.envelopes} | {r_.get("wt") for r_ in anchors.blocking_roles(f).values()}
            points = {s2.bb} | {k.idx for k in live_calls(b) if callee(k.term) in deliver and callee(k.term) != (b.root or b.defn)}
            run.require(rets and not any(r in cfg.reachable_from(0, avoid=points) for r in rets) and 0 not in rets, rule, "send-dominates-return:%s" % fnname,
                        "%s can return without attempting the send" % fnname, "every return is preceded by the send", loc=s2.loc)
            run.sample({"rule": rule, "config": run.cur_config, "fn": fnname, "envelope": site.loc, "send": "%s @ %s" % (m, s2.loc)})
    need = {"tell", "ask"}
    run.require(need <= set(roots) and len(roots) >= 4, rule, "envelope-site-floor", "envelope constructions found in %s (expected tell, ask and the two blocking primitives)" % roots,
                "%d envelope construction sites" % len(roots))
    # no other mailbox enqueue in the crate
    env_bodies = {s.body.name for s, _, _ in sp.envelopes} | {s.body.name for s, _, _ in sp.stop_markers}
    stray = [(short_fn(s.root), m, s.loc) for s, m in sp.mailbox_ops if m not in ("clone", "downgrade", "is_closed") and s.body.name not in env_bodies]
    run.require(not stray, rule, "no-stray-mailbox-send", "mailbox enqueue outside an envelope/stop-marker construction: %s" % stray, "every mailbox enqueue consumes a message built in the same body")


# ---- O2.2 ----------------------------------------------------------------------------------
def mailbox_sender_methods(run, f, sp, rule="O2.2"):
    ms = {}
    for s, m in sp.mailbox_ops:
        ms.setdefault(m, []).append((short_fn(s.root), s.loc))
    allowed = {"send", "blocking_send", "clone", "downgrade", "is_closed"}
    bad = {k: v for k, v in ms.items() if k not in allowed}
    run.require(not bad, rule, "mailbox-sender-methods", "non-waiting / detouring operations on the mailbox Sender: %s" % bad,
                "mailbox Sender used only through %s" % sorted(ms))
    run.require(len(ms.get("send", [])) >= 3 and len(ms.get("blocking_send", [])) >= 2, rule, "mailbox-send-floor",
                "send sites %s, blocking_send sites %s" % (ms.get("send"), ms.get("blocking_send")), "send x%d, blocking_send x%d" % (len(ms.get("send", [])), len(ms.get("blocking_send", []))))


# ---- O1.6 ----------------------------------------------------------------------------------
def stop_marker(run, f, sp, rule="O1.6"):
    midx = actorref_field_index(f, "mailbox")
    ok_n = run.require(len(sp.stop_markers) == 1, rule, "stop-marker-sites", "StopGracefully constructed at %d sites" % len(sp.stop_markers), "one construction site")
    for site, flds, st in sp.stop_markers:
        b = site.body
        tr = tracer_of(b)
        fnname = short_fn(site.root)
        run.require(fnname == "stop", rule, "stop-marker-in-stop", "StopGracefully is constructed in %s" % fnname, "constructed in ActorRef::stop", loc=site.loc)
        who = sp.resolve_to_root_param(b, list(flds.values())[0])
        run.require(who[0] == "clone_of_param" and who[2] == 1, rule, "stop-marker-carries-self-clone", "StopGracefully carries %s" % show(who), "StopGracefully(self.clone())", loc=site.loc)
        E = tr.norm(tr.rvalue(st["rv"]))
        sends = []
        for s2, m in sp.mailbox_ops:
            if s2.body.name == b.name and m not in ("clone", "downgrade", "is_closed"):
                args = [tr.norm(a) for a in tr.call_args(s2.bb)]
                if len(args) > 1 and strip_wrappers(args[1]) == E:
                    sends.append((s2, m, args))
        ok_ = len(sends) == 1 and sends[0][1] == "send" and midx is not None and is_self_field(sp, b, sends[0][2][0], midx)
        run.require(ok_, rule, "stop-marker-in-band", "the stop request is not enqueued with self.sender.send (%s)" % [(m, s.loc) for s, m, _ in sends],
                    "stop marker enqueued in-band: self.sender.send(StopGracefully(..))", loc=site.loc)
    # graceful stop is requested nowhere else: the control channel carries only Terminate (C06) and
    # the loop treats only the marker / None as graceful stop (C04/C07)


# ---- O1.4 ----------------------------------------------------------------------------------
def loop_handles_each_envelope_once(run, lc, rule="O1.4"):
    cfg, b = lc.cfg, lc.body
    P = lc.poll_fn_bb
    hm = lc.hooks["handle_message"]
    if not run.require(len(hm) == 1, rule, "handler-call-sites", "expected one handle_message call, found %d" % len(hm), "one handler call site"):
        return
    h = hm[0]
    env_arm = None
    for bb, info in lc.switch_info.items():
        c = info["cls"]
        if c and c[:2] == ("recv", "mailbox") and len(c) == 4 and __import__("anchors").names(lc.f).envelope in info["arms"]:
            env_arm = info["arms"][__import__("anchors").names(lc.f).envelope]
    if not run.require(env_arm is not None, rule, "envelope-arm", "cannot find the Envelope arm of the mailbox match", "found"):
        return
    r = cfg.reachable_from(env_arm, avoid={h})
    rets = set(cfg.exits(("return",)))
    run.require(P not in r and not (r & rets), rule, "envelope-arm-must-handle", "a dequeued envelope can be dropped without calling its handler (path from the Envelope arm back to the select!/return avoiding handle_message)",
                "every path from the Envelope arm passes the handle_message call", loc=lc.loc(env_arm))
    run.require(cfg.dominates(env_arm, h), rule, "handler-only-for-envelopes", "handle_message is reachable without a dequeued envelope", "handler call dominated by the Envelope arm", loc=lc.loc(h))
    # awaited to completion before the next iteration
    polls = lc.hook_awaits.get(h, [])
    if run.require(len(polls) == 1, rule, "handler-awaited", "handler future awaited at %d places" % len(polls), "handler future awaited in place"):
        pb = polls[0]
        ready = None
        for sbb, info in lc.switch_info.items():
            pass
        # the switch after the poll: Poll discriminant
        for blk in b.blocks:
            if blk.term["k"] == "switch":
                op = blk.term["discr"]
                pl = op.get("copy") or op.get("move")
                if pl is None or pl["p"]:
                    continue
                ds = lc.tr.defs.get(pl["l"], [])
                if len(ds) == 1 and ds[0][0] == "assign" and "discr" in ds[0][3]:
                    src = lc.tr.place(ds[0][3]["discr"])
                    if src == ("call", pb, "futures::Future::poll") or (src[0] == "call" and src[1] == pb):
                        for v, tgt in blk.term["arms"]:
                            if int(v) == 0:
                                ready = tgt
        ok_ = ready is not None and P not in cfg.reachable_from(cfg.succ[h], avoid={ready})
        run.require(ok_, rule, "handler-completes-before-next", "the loop can start the next select! before the handler future is Ready", "next iteration only after the handler future completed", loc=lc.loc(h))
    # payload / reply channel / actor_ref of the dequeued envelope are what the handler gets
    args = [lc.tr.norm(a) for a in lc.tr.call_args(h)]
    cls = [lc.classify(strip_wrappers(a)) for a in args]
    srcs = []
    for a in args:
        t = strip_wrappers(a)
        # field k of (downcast Envelope (payload Some of mailbox recv))
        if t[0] == "field" and t[2][0] == "downcast" and t[2][1] == __import__("anchors").names(lc.f).envelope:
            c = lc.classify(t[2][2])
            srcs.append((t[1], c))
        else:
            srcs.append(None)
    _nm = __import__("anchors").names(lc.f)
    mm = lc.f.adts[_nm.mailbox]["variants"]
    env = [v for v in mm if v["name"] == _nm.envelope][0]
    names = [fl["name"] for fl in env["fields"]]
    got = {}
    for i, s in enumerate(srcs):
        if s and s[1] and s[1][:2] == ("recv", "mailbox"):
            got[i] = names[s[0]]
    run.require(got.get(0) == "payload" and got.get(2) == "actor_ref" and got.get(3) == "reply_channel", rule, "handler-gets-envelope-fields",
                "handle_message arguments do not come from the dequeued envelope: %s" % got, "payload.handle_message(&mut actor, envelope.actor_ref, envelope.reply_channel)", loc=lc.loc(h))


def handle_message_impl(run, f, rule="O1.4"):
    """The blanket PayloadHandler impl calls Message::handle exactly once with *self."""
    cands = [b for b in f.fn_bodies() if b.is_coroutine and (b.root or "").endswith("PayloadHandler<A>>::handle_message")]
    if not run.require(len(cands) == 1, rule, "payloadhandler-impl", "expected one async body of PayloadHandler::handle_message, found %d" % len(cands), "found"):
        return None
    b = cands[0]
    run.count_body(b)
    cfg = cfg_of(b)
    tr = tracer_of(b)
    hs = [blk for blk in live_calls(b) if fn_path(blk.term) == "rsactor::actor::Message::handle"]
    if not run.require(len(hs) == 1, rule, "message-handle-once", "Message::handle is called at %d sites in handle_message" % len(hs), "one Message::handle call"):
        return None
    h = hs[0]
    rets = cfg.exits(("return",))
    run.require(not cfg.in_cycle(h.idx) and all(cfg.dominates(h.idx, r) for r in rets), rule, "message-handle-every-path",
                "Message::handle is not called exactly once on every path", "called once on every path (dominates the return, not in a loop)", loc=loc_of(b, h))
    args = [tr.norm(a) for a in tr.call_args(h.idx)]
    names = {u["name"]: u for u in b.upvars}
    a1 = args[1] if len(args) > 1 else None
    ok_msg = a1 is not None and a1[0] == "deref" and a1[1][0] == "upvar" and a1[1][2] == "self"
    a0 = strip_refs(args[0]) if args else None
    ok_actor = a0 is not None and a0[0] == "upvar" and a0[2] == "actor"
    run.require(ok_msg and ok_actor, rule, "message-handle-args", "Message::handle is called with (%s, %s)" % (show(args[0]) if args else None, show(a1) if a1 else None),
                "Message::handle(actor, *self, &actor_ref)", loc=loc_of(b, h))
    return b, h


# ---- O1.5 ----------------------------------------------------------------------------------
def one_consumer(run, f, lc, rule="O1.5"):
    uses = {}
    for b, blk in all_calls(f):
        fn = fn_of(blk)
        ch = lifecycle.receiver_chan(f, blk.term)
        if ch == "mailbox":
            uses.setdefault(fn.get("name"), []).append((b.name, loc_of(b, blk)))
    bad = {k: v for k, v in uses.items() if k not in ("recv", "close")}
    run.require(not bad, rule, "mailbox-receiver-methods", "the mailbox receiver is also consumed through %s" % bad, "mailbox Receiver used only through %s" % sorted(uses))
    rv = uses.get("recv", [])
    run.require(len(rv) == 1 and rv[0][0] == lc.body.name, rule, "single-recv-site", "mailbox recv sites: %s" % rv, "one recv site, the select! branch of the lifecycle")
    nch = [(b.name, loc_of(b, blk)) for b, blk in all_calls(f) if fn_of(blk).get("krate") == "tokio" and fn_of(blk).get("name") in ("channel", "unbounded_channel")
           and "mpsc" in (fn_of(blk).get("def") or "") and fn_of(blk).get("targs") and chan_of(f.ty(fn_of(blk)["targs"][0])) == "mailbox"]
    run.require(len(nch) == 1, rule, "single-mailbox-channel", "mailbox channels are created at %s" % nch, "one mailbox channel creation")


# ---- O2.1 ----------------------------------------------------------------------------------
def one_queue(run, f, sp, lc, rule="O2.1"):
    sites = []
    unb = []
    for b, blk in all_calls(f):
        fn = fn_of(blk)
        if fn.get("krate") == "tokio" and "mpsc" in (fn.get("def") or ""):
            if fn.get("name") == "unbounded_channel":
                unb.append((b.name, loc_of(b, blk)))
            if fn.get("name") == "channel" and fn.get("targs") and chan_of(f.ty(fn["targs"][0])) == "mailbox":
                sites.append((b, blk))
    run.require(not unb, rule, "no-unbounded-channel", "unbounded channel created at %s" % unb, "unbounded_channel: 0 sites")
    if not run.require(len(sites) == 1, rule, "one-mailbox-channel", "mailbox channel created at %d sites" % len(sites), "one bounded mailbox channel"):
        return None
    b, blk = sites[0]
    tr = tracer_of(b)
    chan_term = ("call", blk.idx, callee(blk.term))
    # sender half -> the one freshly built ActorRef (private constructors are inlined: the aggregate is in this body);
    # receiver half -> the lifecycle call
    lc_calls = [k for k in live_calls(b) if callee(k.term) == lc.root_fn]
    ok_rx = len(lc_calls) == 1 and any(strip_wrappers(tr.norm(a)) == ("field", 1, chan_term) for a in tr.call_args(lc_calls[0].idx))
    run.require(ok_rx, rule, "receiver-into-lifecycle", "the mailbox Receiver does not go into the lifecycle call", "Receiver half -> run_actor_lifecycle", loc=loc_of(b, blk))
    fresh = []
    # every construction of an ActorRef takes its sender from a parameter, a clone of self.sender or an upgrade
    midx = actorref_field_index(f, "mailbox")
    n = 0
    for bd in f.fn_bodies():
        t2 = tracer_of(bd)
        for bk in bd.blocks:
            for st in bk.stmts:
                if st["k"] == "assign" and "agg" in st["rv"] and st["rv"].get("adt") == AR:
                    n += 1
                    op = st["rv"]["ops"][midx]
                    t = strip_wrappers(t2.norm(t2.operand(op)))
                    t2_, bd_ = t2, bd
                    if t[0] in ("upvar", "field"):
                        # built inside a closure (`.map(|ts| ActorRef { sender, .. })`): the captured value in the enclosing body
                        bd_, t = sp.lift(bd, t)
                        t = strip_wrappers(t)
                        t2 = tracer_of(bd_)
                    origin = None
                    if t[0] == "param":
                        origin = "parameter"
                    elif t[0] == "call" and t[2].endswith("Clone::clone"):
                        inner = strip_refs(t2.norm(t2.call_args(t[1])[0]))
                        if inner[0] == "field" and inner[1] == midx and strip_refs(inner[2])[0] == "param":
                            origin = "clone of self.sender"
                    elif t[0] == "try_ok" or (t[0] == "field" and t[2][0] == "downcast"):
                        origin = None
                    if t == ("field", 0, chan_term) and bd.name == b.name:
                        origin = "the Sender half of the mailbox channel (spawn)"
                        fresh.append(f.span(st["span"]).loc)
                    tt = norm_try(t2, t2.operand(op)) if bd_ is bd else norm_try(t2, t)
                    if origin is None and tt[0] == "try_ok":
                        c = strip_wrappers(tt[1])
                        if c[0] == "call" and "WeakSender" in c[2] and c[2].endswith("upgrade"):
                            origin = "upgrade of the weak sender"
                    if origin is None and tt[0] == "field" and tt[1] == 0 and tt[2][0] == "downcast" and tt[2][1] == "Some":
                        # `let Some(sender) = weak.upgrade() else {..}` / `match weak.upgrade() { Some(sender) => .. }`
                        c = strip_wrappers(tt[2][2])
                        if c[0] == "call" and "WeakSender" in c[2] and c[2].endswith("upgrade"):
                            origin = "upgrade of the weak sender"
                    t2 = t2_
                    run.require(origin is not None, rule, "actorref-sender-origin:%s" % short_fn(bd.root or bd.defn), "ActorRef built in %s with sender %s" % (bd.name, show(t)),
                                "sender: %s" % origin, loc=f.span(st["span"]).loc)
    run.require(n >= 3, rule, "actorref-construction-floor", "only %d ActorRef constructions found" % n, "%d ActorRef construction sites (spawn, clone, upgrade)" % n)
    run.require(len(fresh) == 1, rule, "sender-into-actorref", "the mailbox Sender goes into %d freshly built ActorRef values in the spawn function %s (expected exactly one)" % (len(fresh), fresh),
                "Sender half -> the one ActorRef built by the spawn function", loc=loc_of(b, blk))
    return b, blk


# ---- O2.3 ----------------------------------------------------------------------------------
def no_async_detour(run, f, sp, rule="O2.3"):
    bad = []
    for b, blk in all_calls(f):
        fn = fn_of(blk)
        p = fn.get("path") or ""
        if p.startswith("tokio::task::") and fn.get("name") in ("spawn_blocking", "spawn_local", "block_in_place"):
            bad.append((fn.get("name"), b.name, loc_of(b, blk)))
        if p.startswith("tokio::runtime::") and fn.get("name") in ("spawn", "spawn_blocking"):
            bad.append((fn.get("name"), b.name, loc_of(b, blk)))
    run.require(not bad, rule, "no-spawned-sends", "tasks spawned besides the lifecycle: %s" % bad, "spawn_blocking / spawn_local / Handle::spawn: 0 sites")
    spawns = [(b.name, loc_of(b, blk)) for b, blk in all_calls(f) if (fn_of(blk).get("path") or "").startswith("tokio::task::spawn::spawn")]
    run.require(len(spawns) == 1, rule, "one-tokio-spawn", "tokio::spawn sites: %s" % spawns, "tokio::spawn: one site (the lifecycle)")
    for site in sp.thread_spawns:
        b = site.body
        cfg = cfg_of(b)
        fnname = short_fn(site.root)
        recvs = [k.idx for k in live_calls(b) if fn_of(k).get("name") == "recv" and (fn_of(k).get("def") or "").startswith("std::sync::mpsc::Receiver")]
        rets = cfg.exits(("return",))
        ok_ = len(recvs) == 1 and all(cfg.dominates(recvs[0], r) for r in rets) and cfg.dominates(site.bb, recvs[0])
        run.require(ok_, rule, "thread-helper-joined:%s" % fnname, "%s spawns a thread but can return without receiving its result (program order of the caller would be lost)" % fnname,
                    "%s waits for the helper's result on every path before returning" % fnname, loc=site.loc)
        run.require(fnname.startswith("blocking_"), rule, "thread-spawn-only-in-blocking:%s" % fnname, "std::thread::spawn used in %s" % fnname, "thread helper only under a blocking API", loc=site.loc)


# ---- the stop marker ends message handling -------------------------------------------------------
def stop_marker_ends_loop(run, lc, rule="O1.6"):
    """Nothing behind the stop marker is handled: from the arm taken for the graceful-stop marker
    (and for a closed mailbox) the loop cannot get back to the select! or to a handler; it
    reaches on_stop."""
    import anchors
    nm = anchors.names(lc.f)
    cfg = lc.cfg
    arms = []
    for bb, info in lc.switch_info.items():
        c = info["cls"]
        if c and c[:2] == ("recv", "mailbox"):
            if len(c) == 4 and nm.stop in info["arms"]:
                arms.append(("stop-marker", info["arms"][nm.stop]))
            if len(c) == 3 and "None" in info["arms"]:
                arms.append(("mailbox-closed", info["arms"]["None"]))
    if not run.require(len(arms) >= 2, rule, "stop-arms-found", "cannot find the arms for the stop marker / closed mailbox (%s)" % arms, "found"):
        return
    for what, a in arms:
        r = cfg.reachable_from(a)
        bad = []
        if lc.poll_fn_bb in r:
            bad.append("the select! (so later messages are still received)")
        bad += ["handle_message"] if any(h in r for h in lc.hooks["handle_message"]) else []
        bad += ["on_run"] if any(h in r for h in lc.hooks["on_run"]) else []
        stops = [h for h in lc.hooks["on_stop"] if h in r]
        run.require(not bad and stops, rule, "stop-ends-handling:%s" % what,
                    "after the %s is dequeued the loop can still reach %s: messages accepted after stop() returned would be handled" % (what, ", ".join(bad) or "no on_stop"),
                    "the %s arm leads to on_stop and never back to the select! / a handler" % what, loc=lc.loc(a))


# ---- delivery never panics on its own ---------------------------------------------------------

DELIVERY_API = ("tell", "ask", "tell_with_timeout", "ask_with_timeout", "ask_join", "stop", "kill", "blocking_tell", "blocking_ask",
                "tell_blocking", "ask_blocking")


def delivery_never_panics(run, f, rule):
    """A sender must get an error value, not a panic: no panic entry, Assert, unwrap/expect is reachable (crate-local callees
    followed to depth 3) in the public delivery functions, their private primitives and the dead-letter recorder.
    Only exception, under deadlock-detection: the deliberate deadlock panic of `ask` and the unwrap of the graph lock, both
    governed by C12-O12.5 / C14 / C15."""
    import anchors
    import deadlock
    roots = ["actor_ref::ActorRef::<T>::" + n for n in DELIVERY_API]
    for r in anchors.blocking_roles(f).values():
        roots += list(r.values())
    rd = anchors.record_def(f)
    if rd:
        roots.append(rd)
    det = deadlock.get(f) if "deadlock-detection" in f.features else None
    allowed = set()
    if det is not None and det.body is not None:
        for p in det.panics:
            allowed.add((det.body.name, loc_of(det.body, p)))
        for blk in live_calls(det.body):
            if fn_of(blk).get("name") == "unwrap" and blk.idx in (det.region | {det.acquire} if det.acquire is not None else det.region):
                allowed.add((det.body.name, loc_of(det.body, blk)))
        # the unwrap of `lock()` sits at the acquisition itself
        tr = tracer_of(det.body)
        for blk in live_calls(det.body):
            if fn_of(blk).get("name") == "unwrap" and blk.term["args"]:
                a = strip_wrappers(tr.norm(tr.call_args(blk.idx)[0]))
                if a[0] == "call" and a[2].startswith("std::sync::Mutex") and a[2].endswith("::lock"):
                    allowed.add((det.body.name, loc_of(det.body, blk)))
    n = 0
    for root in roots:
        fam = f.family(root)
        if not fam:
            continue
        bad = []
        for b in fam:
            n += 1
            for site in deadlock.panic_sites_in(f, b, None, depth=3):
                if site[2].startswith("assert Overflow"):
                    continue        # debug-build arithmetic overflow checks: not a behaviour of the API
                if (site[0], site[1]) not in allowed:
                    bad.append((site[1], site[2][:60]))
        run.require(not bad, rule, "never-panics:%s" % short_fn(root), "%s can panic instead of returning an error to its caller: %s" % (short_fn(root), bad[:3]),
                    "no panic entry / Assert / unwrap / expect reachable in %s (%d bodies)" % (short_fn(root), len(fam)))
    run.require(n >= 12, rule, "never-panics-floor", "only %d delivery bodies inspected" % n, "%d bodies inspected" % n)
