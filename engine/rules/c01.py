"""C01 - accepted messages are handled exactly once; rejected ones never."""
import lifecycle
import sendpaths
from rules import sendrules as sr
from rules import c07, c13

LEVEL = "other"
TRUSTED = ["T1", "T2", "T4", "T5", "T9"]
NOT_DECIDED = []
EXPLANATION = (
    "Assume/guarantee argument over the one bounded mpsc channel (tokio axioms T1/T2): an envelope is in the queue exactly once iff "
    "its send returned Ok; decided statically for every path and feature set: each envelope construction (tell, ask, the two blocking "
    "primitives) boxes the message parameter, embeds self.clone() and flows into exactly one send/blocking_send on self.sender, outside "
    "any loop and dominating every return; Error::Send is built only on the failing outcome of that send; no other mailbox enqueue "
    "exists; the stop request is an in-band StopGracefully(self.clone()) on the same sender; the loop calls handle_message exactly once "
    "for each dequeued Envelope and awaits it to completion before the next select!, with the envelope's own payload / reply channel; "
    "the blanket PayloadHandler calls Message::handle once on every path with *self; the mailbox Receiver has one consumer (recv in "
    "the select!, close after the loop); every queued message owns an ActorRef and the loop holds no strong reference across the "
    "select! (C07 rule), so 'all references dropped' cannot be observed before the queue is drained. A tell that reports Timeout "
    "was never enqueued: waiting for the slot is tell's only suspension point and the timed tell variants put exactly that tell under "
    "their deadline.")


def run(run):
    for cfgname, f in run.for_configs():
        sp = sendpaths.get(f)
        lc = lifecycle.get(f)
        if lc.errors or lc.body is None:
            for e in lc.errors:
                run.fail("O1.0", "lifecycle-anchor", e)
            continue
        run.count_body(lc.body)
        sr.envelope_types(run, f)
        sr.envelope_constructions(run, f, sp)
        sr.mailbox_sender_methods(run, f, sp, rule="O1.2")
        rejection(run, f, sp)
        sr.loop_handles_each_envelope_once(run, lc)
        sr.handle_message_impl(run, f)
        sr.one_consumer(run, f, lc)
        sr.stop_marker(run, f, sp)
        sr.stop_marker_ends_loop(run, lc, rule="O1.6")
        c07.no_strong_across_select(run, lc)     # O1.7
        tell_commits_last(run, f, sp)
        timed_tell_is_tell(run, f, sp)


def timed_tell_is_tell(run, f, sp):
    """O1.8, second half: the single-suspension-point argument is about `tell`, so what the timed tell variants put under
    their deadline must be that `tell` (not e.g. `ask`, which stays suspended after its message was committed: the deadline
    could then fire for a message that is handled)."""
    from rules import c10
    from rules.common import tracer_of
    from prov import strip_wrappers, show
    n = 0
    for site in sp.timeouts:
        fnname = sr.short_fn(site.root)
        if "tell" not in fnname:
            continue
        n += 1
        tr = tracer_of(site.body)
        args = [tr.norm(a) for a in tr.call_args(site.bb)]
        fb, fut = sp.lift(site.body, args[1])
        fut = strip_wrappers(fut)
        base = fut[2] if fut[0] == "call" else None
        run.require(c10.BASE.get(base) == "tell", "O1.8", "timed-tell-wraps-tell:%s" % fnname,
                    "the future %s puts under its deadline is %s, not tell(self, msg): it can still be suspended after the message entered the mailbox, so Err(Timeout) can be reported for a message that is handled" % (fnname, show(fut)),
                    "the deadline of %s covers exactly tell(self, msg)" % fnname, loc=site.loc)
    run.require(n >= 2, "O1.8", "timed-tell-floor", "only %d timed tell variants found (expected tell_with_timeout and the blocking helper)" % n, "%d timed tell variants" % n)


def tell_commits_last(run, f, sp):
    """O1.8: a tell that reports an error (e.g. Timeout when its future is dropped by tell_with_timeout) was never enqueued:
    waiting for the mailbox slot is the only suspension point of `tell`, so the future cannot be cancelled *after* the
    message was committed and before the outcome is reported (tokio's send itself is cancel-safe: axiom T1)."""
    from rules.common import cfg_of, loc_of
    sites = [s_ for s_, m in sp.mailbox_ops if m == "send" and sr.short_fn(s_.root) == "tell"]
    if not run.require(len(sites) == 1, "O1.8", "tell-send-site", "tell has %d waiting send sites" % len(sites), "one waiting send in tell"):
        return
    b = sites[0].body
    cfg = cfg_of(b)
    ys = [blk.idx for blk in b.blocks if blk.term["k"] == "yield" and blk.idx in cfg.live]
    after = cfg.reachable_from(sites[0].bb)
    # the send's own await: the first suspension point reached from the send call; any other one is a second await
    own = [y for y in ys if y in after]
    extra = []
    if own:
        first = min(own, key=lambda y: len(cfg.path(sites[0].bb, y) or [0] * 999))
        extra = [y for y in ys if y != first]
    run.require(len(ys) == 1 or (own and not extra), "O1.8", "tell-single-suspension-point",
                "tell has %d suspension points (%s): its future can be dropped after the message was enqueued and before Ok is reported - a caller of tell_with_timeout would get Err(Timeout) for a message that is handled"
                % (len(ys), [loc_of(b, y) for y in ys]), "the wait for a mailbox slot is tell's only suspension point", loc=sites[0].loc)


def rejection(run, f, sp):
    """O1.3: Err(Send) only when the mailbox send failed (T1: then nothing was enqueued)."""
    n = 0
    for site, variant, flds, st in sp.errors:
        if variant != "Send":
            continue
        ctx = sp.failure_context(site)
        ck = c13.ctx_kind(ctx)
        fnname = sr.short_fn(site.root)
        if ck in c13.INFRA:
            run.ok("O1.3", "infra-exception:%s:%s" % (fnname, ck), "infrastructure failure before anything is enqueued by this function (frozen exception)", loc=site.loc)
            continue
        n += 1
        run.require(ck == "mailbox_send", "O1.3", "send-error-only-on-failed-send:%s" % fnname,
                    "Error::Send in %s is constructed under condition %s (a message could be enqueued and still reported as rejected, or vice versa)" % (fnname, ck),
                    "Err(Send) only on the failing outcome of the mailbox send", loc=site.loc)
        okr, why = c13.flows_to_return(sp, site, st)
        run.require(okr, "O1.3", "send-error-returned:%s" % fnname, why, "reported to the caller", loc=site.loc)
    run.require(n >= 4, "O1.3", "send-error-floor", "only %d Error::Send sites tied to a mailbox send" % n, "%d Error::Send sites tied to their mailbox send" % n)
