"""C13 - exactly one dead letter per failed delivery, none per success."""
import sendpaths
from sendpaths import norm_try, subterms
from rules.common import cfg_of, tracer_of, live_calls, fn_of, loc_of, all_calls
from prov import strip_wrappers, show
from cfg import const_int

LEVEL = "other"
TRUSTED = ["T1", "T3", "T5", "T7", "T8"]
NOT_DECIDED = ["the four infrastructure Error::Send sites of the blocking timeout helpers (runtime creation failed / helper thread died) record no dead letter; they are environment failures outside the property's table and are listed as frozen exceptions"]
EXPLANATION = (
    "Pairing rule over every construction of Error::Send / Error::Timeout / Error::Receive in the crate (all feature sets): each is "
    "conditioned on exactly the matching failure (failed mailbox send / Elapsed of the timeout wrapper / closed reply channel; "
    "established from the guarding switch or the map_err the closure is passed to), is control-equivalent with exactly one "
    "dead_letter::record::<M> call with the matching reason constant, the function's message type and self.identity(), and reaches the "
    "function's return value; every record call is paired with such a construction, so a success path records nothing; wrappers "
    "around another send operation record only inside their Elapsed closure; operation labels agree with the enclosing API; "
    "record() itself performs one fetch_add(1) on the counter on every path and the counter is written nowhere else.")

REASON = {"Send": "ActorStopped", "Timeout": "Timeout", "Receive": "ReplyDropped"}
WANT_CTX = {"Send": "mailbox_send", "Timeout": "timeout", "Receive": "reply_wait"}
INFRA = ("runtime_build", "helper_result")


LABELS = ("blocking_tell", "blocking_ask", "tell", "ask")


def _label_of_name(n):
    for l in LABELS:       # longest first
        if n.startswith(l):
            return l
    return None


def expected_labels(f, root):
    """The operation label an API function must use: the longest of the four labels that
    prefixes its own name; for a (renamed) private helper without such a prefix, the labels
    of its direct callers among ActorRef's methods."""
    own = _label_of_name(root.split("::")[-1])
    if own:
        return {own}
    out = set()
    for b, blk in all_calls(f):
        if fn_of(blk).get("def") == root:
            l = _label_of_name((b.root or b.defn).split("::")[-1])
            if l:
                out.add(l)
    return out


def ctx_kind(ctx):
    if ctx is None:
        return None
    return ctx[1]


def run(run):
    for cfgname, f in run.for_configs():
        sp = sendpaths.get(f)
        pairing(run, f, sp)
        record_fn(run, f)
        # a failed delivery records its dead letter and returns the error: neither the recorder nor the delivery function panics
        from rules import sendrules
        sendrules.delivery_never_panics(run, f, "O13.7")
        # the blocking timeout helpers have one unrecorded `Error::Send` ("helper thread terminated unexpectedly"): it is an
        # exception to the pairing rule only because the helper cannot die before it reports - no panic site in the thread
        # closures (covered by O13.7 through the family of the primitives) and the timeout wrapper it runs is total in its
        # Duration argument (C10 rule O10.1: no panicking Instant + Duration)
        from rules import c10
        c10.wrapper_shape(run, f, sp)


def flows_to_return(sp, site, st):
    body = site.body
    tr = tracer_of(body)
    helper = "E" in st
    E = st["E"] if helper else tr.norm(tr.rvalue(st["rv"]))
    ret = norm_try(tr, tr.local(0))
    if helper and st.get("wrapped_err"):
        # the helper already returns Err(..): its call result must reach the return value
        if any(strip_wrappers(t) == E for t in subterms(ret)):
            return True, ""
        return False, "the error built by the helper does not reach the return value"
    if body.def_kind == "Closure" and not body.is_coroutine:
        r_ = strip_wrappers(ret)
        wrapped = r_[0] == "agg" and r_[1][:3] == ("adt", "std::result::Result", "Err") and r_[2] and strip_wrappers(r_[2][0]) == E
        if r_ != E and not wrapped:      # `|_| E` (map_err) or `|_| Err(E)` (unwrap_or_else / or_else)
            return False, "the closure does not return the constructed error"
        ctx = sp.failure_context(site)
        if not ctx or ctx[0] != "map_err":
            return False, "closure is not passed to map_err"
        par, cbb = ctx[-1]
        ptr = tracer_of(par)
        pret = norm_try(ptr, ptr.local(0))
        C = None
        for t in subterms(pret):
            if t[0] == "call" and t[1] == cbb:
                C = t
        if C is None:
            # the map_err result may flow through a local into the helper thread's channel (blocking helpers)
            for blk in live_calls(par):
                for a in ptr.call_args(blk.idx):
                    for t in subterms(norm_try(ptr, a)):
                        if t[0] == "call" and t[1] == cbb:
                            C = t
        return (C is not None), "the map_err result does not reach the enclosing function's result"
    for t in subterms(ret):
        if t[0] == "agg" and t[1][:3] == ("adt", "std::result::Result", "Err") and t[2] and t[2][0] == E:
            return True, ""
    return False, "the constructed error does not reach the return value as Err(..)"


def pairing(run, f, sp):
    env_roots = {s.root for s, _, _ in sp.envelopes}
    rec_by_body = {}
    for rec in sp.records:
        rec_by_body.setdefault(rec[0].body.name, []).append(rec)
    used = set()
    n_pairs = 0
    fam_seen = set()
    for site, variant, flds, st in sp.errors:
        if variant not in REASON:
            continue
        body = site.body
        run.count_body(body)
        fnname = site.root.split("::")[-1]
        key = "%s:%s" % (variant, fnname)
        ctx = sp.failure_context(site)
        ck = ctx_kind(ctx)
        if variant == "Send" and ck in INFRA:
            run.ok("O13.1", "infra-exception:%s:%s" % (fnname, ck), "infrastructure failure (%s), frozen exception: no dead letter required" % ck, loc=site.loc)
            continue
        if not run.require(ck == WANT_CTX[variant], "O13.1", "error-condition:%s" % key,
                           "Error::%s in %s is constructed under condition %s, expected %s" % (variant, fnname, ck, WANT_CTX[variant]),
                           "Error::%s constructed exactly on %s" % (variant, ck), loc=site.loc):
            continue
        cfg = cfg_of(body)
        recs = [r for r in rec_by_body.get(body.name, []) if r[0].bb == site.bb or cfg.control_equivalent(r[0].bb, site.bb)]
        if not run.require(len(recs) == 1, "O13.1", "one-record:%s" % key,
                           "Error::%s in %s is paired with %d dead_letter::record call(s) (need exactly one on the same branch)" % (variant, fnname, len(recs)),
                           "exactly one record call on the failing branch", loc=site.loc):
            continue
        rsite, targs, args, rawargs = recs[0]
        used.add((rsite.body.name, rsite.bb))
        n_pairs += 1
        fam_seen.add((variant, "ask" if "ask" in fnname else "tell"))
        # reason constant
        reason = args[1] if len(args) > 1 else None
        rname = reason[1][2] if reason and reason[0] == "agg" and reason[1][0] == "adt" else None
        run.require(rname == REASON[variant], "O13.1", "reason:%s" % key, "dead-letter reason is %s for Error::%s (expected %s)" % (rname, variant, REASON[variant]),
                    "reason %s" % rname, loc=rsite.loc)
        # message type = the function's message parameter type
        rootfn = f.fns.get(site.root)
        mty = f.ty(rootfn["inputs"][1]).s if rootfn and len(rootfn["inputs"]) > 1 else None
        run.require(targs and mty is not None and targs[0].s == mty, "O13.1", "message-type:%s" % key,
                    "record::<%s> but the message parameter type is %s" % (targs[0].s if targs else None, mty), "record::<%s>" % mty, loc=rsite.loc)
        # identity = self.identity()
        idt = strip_wrappers(args[0]) if args else None
        ok_id = False
        ibody = rsite.body
        if idt is not None and idt[0] in ("upvar", "field"):
            ibody, idt = sp.lift(rsite.body, idt)       # `let identity = self.identity();` hoisted and captured
            idt = strip_wrappers(idt)
        if idt and idt[0] == "call" and idt[2] == "actor_ref::ActorRef::<T>::identity":
            tr = tracer_of(ibody)
            who = sp.resolve_to_root_param(ibody, tr.norm(tr.call_args(idt[1])[0]))
            ok_id = who[0] in ("param", "clone_of_param") and who[2] == 1
        run.require(ok_id, "O13.1", "identity:%s" % key, "dead letter does not name self.identity() (%s)" % (show(idt) if idt else None), "identity = self.identity()", loc=rsite.loc)
        # label
        op = args[2] if len(args) > 2 else None
        if op is not None and strip_wrappers(op)[0] != "const":
            # the label may be handed down through a helper's parameter / a closure capture: `bounded(timeout, "ask", fut)`
            _, op = sp.lift(rsite.body, op)
        op = strip_wrappers(op) if op is not None else None
        label = op[1].strip('"') if op and op[0] == "const" else None
        lab_ok = label in LABELS and label in expected_labels(f, site.root)
        run.require(lab_ok, "O13.4", "label:%s" % key, "operation label %r under API %s" % (label, fnname), "label %r" % label, loc=rsite.loc)
        # O13.2 the error is returned
        okr, why = flows_to_return(sp, site, st)
        run.require(okr, "O13.2", "returned:%s" % key, why, "error reaches the function result", loc=site.loc)
        # O13.3 wrappers record only for Elapsed
        if ck != "timeout":
            run.require(site.root in env_roots, "O13.3", "primitive-records:%s" % key,
                        "%s records a %s dead letter but does not itself enqueue (double counting through a wrapper)" % (fnname, variant),
                        "recorded by the function that performs the send", loc=rsite.loc)
        run.sample({"rule": "O13.1", "config": run.cur_config, "error": "Error::%s" % variant, "fn": fnname, "condition": ck, "record": rsite.loc, "reason": rname, "label": label})
    # every record is paired
    for rsite, targs, args, _ in sp.records:
        run.require((rsite.body.name, rsite.bb) in used, "O13.6", "record-paired:%s" % rsite.body.name.replace("actor_ref::ActorRef::<T>::", ""),
                    "dead_letter::record call not paired with a returned delivery error (it would count a success or count twice)", "paired", loc=rsite.loc)
    need = {("Send", "tell"), ("Send", "ask"), ("Timeout", "tell"), ("Timeout", "ask"), ("Receive", "ask")}
    run.require(need <= fam_seen and n_pairs >= 10, "O13.1", "pair-floor", "paired records found: %d, families %s (expected >= 10 covering %s)" % (n_pairs, sorted(fam_seen), sorted(need)),
                "%d error/record pairs covering every (variant, family)" % n_pairs)


def record_fn(run, f):
    import anchors
    d = anchors.record_def(f)
    body = f.body(d) if d else None
    if not run.require(body is not None, "O13.5", "record-present", "dead_letter::record not found", "found"):
        return
    run.count_body(body)
    # tracing event present on every path: a call from a tracing macro expansion dominates... (the event macro body)
    ev = [blk.idx for blk in live_calls(body) if any(m.startswith("tracing::") for m in f.span(blk.term["span"]).macros)]
    run.require(len(ev) >= 1, "O13.5", "record-emits-event", "record() no longer emits a tracing event", "tracing event emitted (%d expansion calls)" % len(ev))
    counter = "dead_letter::DEAD_LETTER_COUNT"
    has_counter = any(s["def"] == counter for s in f.statics)
    if not has_counter:
        run.ok("O13.5", "counter-absent", "counter not compiled under this feature set", nontrivial=False)
        return
    uses = {}
    for b, blk in all_calls(f):
        tr = tracer_of(b)
        for a in blk.term["args"]:
            for t in subterms(tr.operand(a)):
                pass
        # find args that are refs to the static
        for a in blk.term["args"]:
            pl = a.get("move") or a.get("copy")
            if pl is None:
                continue
            st = _static_of(b, tr, pl)
            if st == counter:
                uses.setdefault(fn_of(blk).get("name"), []).append((b.name, blk))
    wr = {k: [n for n, _ in v] for k, v in uses.items() if k not in ("load",)}
    ok_ = set(wr) <= {"fetch_add", "store"} and wr.get("fetch_add") == [d] and all(n == "dead_letter::reset_dead_letter_count" for n in wr.get("store", []))
    run.require(ok_, "O13.5", "counter-writers", "dead-letter counter is written by %s" % wr, "counter written only by record (fetch_add) and reset (store)")
    fa = [blk for n, blk in uses.get("fetch_add", []) if n == d]
    if fa:
        blk = fa[0]
        cfg = cfg_of(body)
        inc = const_int(blk.term["args"][1]) if len(blk.term["args"]) > 1 else None
        rets = cfg.exits(("return",))
        dom = all(cfg.dominates(blk.idx, r) for r in rets) and not cfg.in_cycle(blk.idx)
        run.require(inc == 1 and dom and len(fa) == 1, "O13.5", "counter-increment", "record() increments the counter by %s, on every path: %s, sites: %d" % (inc, dom, len(fa)),
                    "one fetch_add(1) dominating every return", loc=loc_of(body, blk))


def _static_of(body, tr, pl):
    """def path of the static a place refers to (through `&*const_ptr`)."""
    b = body
    seen = 0
    l = pl["l"]
    while seen < 6:
        seen += 1
        ds = tr.defs.get(l, [])
        if len(ds) != 1 or ds[0][0] != "assign":
            return None
        rv = ds[0][3]
        if "use" in rv and "const" in rv["use"]:
            return rv["use"]["const"].get("static")
        nxt = None
        if "ref" in rv:
            nxt = rv["ref"]["l"]
        elif "use" in rv:
            p2 = rv["use"].get("copy") or rv["use"].get("move")
            nxt = p2["l"] if p2 else None
        if nxt is None:
            return None
        l = nxt
    return None
