"""Semantic anchors for private items (robust to renames): found by what they take / return,
never by name. Each returns a def path or None (callers fail closed on None / ambiguity)."""

_cache = {}


def _mentions_wait_map(f, tyid):
    t = f.ty(tyid)
    for x in t.walk():
        if x.is_adt("std::collections::HashMap") and len(x.args) >= 2 and x.args[0].k == "uint" and x.args[1].is_adt("Identity"):
            return True
    return False


def _get(f, key, fn):
    k = (f.path, key)
    if k not in _cache:
        _cache[k] = fn()
    return _cache[k]


def wait_map_fns(f):
    """All crate functions whose signature mentions the wait-for map type."""
    def go():
        out = []
        for d, fn in f.fns.items():
            if not fn.get("has_body"):
                continue
            if any(_mentions_wait_map(f, t) for t in fn["inputs"]) or _mentions_wait_map(f, fn["output"]):
                out.append(d)
        return out
    return _get(f, "wait_map_fns", go)


def has_path_def(f):
    """The cycle test: takes the wait-for map (by reference) and returns bool."""
    def go():
        c = [d for d in wait_map_fns(f) if f.ty(f.fns[d]["output"]).k == "bool" and any(_mentions_wait_map(f, t) for t in f.fns[d]["inputs"])]
        return c[0] if len(c) == 1 else None
    return _get(f, "has_path", go)


def wait_for_graph_def(f):
    """The accessor returning the global Mutex around the wait-for map."""
    def go():
        c = []
        for d in wait_map_fns(f):
            out = f.ty(f.fns[d]["output"])
            if any(x.is_adt("std::sync::Mutex") for x in out.walk()) and not f.fns[d]["inputs"]:
                c.append(d)
        return c[0] if len(c) == 1 else None
    return _get(f, "wait_for_graph", go)


def record_def(f):
    """The dead-letter recorder: the crate function taking a DeadLetterReason by value."""
    def go():
        c = [d for d, fn in f.fns.items() if fn.get("has_body") and any(f.ty(t).is_adt("dead_letter::DeadLetterReason") for t in fn["inputs"])]
        return c[0] if len(c) == 1 else None
    return _get(f, "record", go)
