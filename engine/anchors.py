"""Semantic anchors for private items (robust to renames): found by what they take / return,
never by name. Each returns a def path or None (callers fail closed on None / ambiguity)."""

_cache = {}


def is_wait_map(f, x):
    """The wait-for map type: HashMap<u64, Identity>, or a private struct of the crate whose only field is that map
    (a newtype with methods: the methods are ordinary crate-private helpers, so they are inlined where they are used)."""
    if x.is_adt("std::collections::HashMap") and len(x.args) >= 2 and x.args[0].k == "uint" and x.args[1].is_adt("Identity"):
        return True
    if x.k == "adt" and x.defn in f.adts:
        a = f.adts[x.defn]
        vs = a.get("variants") or []
        if a.get("kind", "struct") in ("struct", "Struct") and len(vs) == 1 and len(vs[0]["fields"]) == 1:
            return is_wait_map(f, f.ty(vs[0]["fields"][0]["ty"]))
    return False


def peel_newtype(f, ty, depth=0):
    """The type inside private single-field structs of the crate (`struct IdAllocator(AtomicU64)`): such a wrapper only
    adds methods (ordinary crate-private helpers, inlined where they are used); what kind of state it is is decided by
    the field."""
    while depth < 4 and ty.k == "adt" and ty.defn in f.adts:
        a = f.adts[ty.defn]
        vs = a.get("variants") or []
        if a.get("kind") != "Struct" or len(vs) != 1 or len(vs[0]["fields"]) != 1:
            break
        ty = f.ty(vs[0]["fields"][0]["ty"])
        depth += 1
    return ty


def field_paths(f, adt, pred, depth=0):
    """[(dotted index path, field name)] of the fields satisfying pred(type), also inside private structs of the crate that
    group them (`channels: WeakChannels { sender, terminate_sender }`)."""
    out = []
    a = f.adts.get(adt)
    if not a or not a.get("variants"):
        return out
    for i, fl in enumerate(a["variants"][0]["fields"]):
        ty = f.ty(fl["ty"])
        if pred(ty):
            out.append((str(i), fl["name"], ty))
        elif depth < 2 and ty.k == "adt" and ty.defn in f.adts and f.adts[ty.defn].get("kind") == "Struct":
            out += [("%d.%s" % (i, p), n, t) for p, n, t in field_paths(f, ty.defn, pred, depth + 1)]
    return out


def _mentions_wait_map(f, tyid):
    t = f.ty(tyid)
    for x in t.walk():
        if is_wait_map(f, x):
            return True
    return False


def _get(f, key, fn):
    k = (f.path, key)
    if k not in _cache:
        _cache[k] = fn()
    return _cache[k]


def wait_map_fns(f):
    """All crate functions whose signature mentions the wait-for map type."""
    def go():
        out = []
        for d, fn in f.fns.items():
            if not fn.get("has_body"):
                continue
            if any(_mentions_wait_map(f, t) for t in fn["inputs"]) or _mentions_wait_map(f, fn["output"]):
                out.append(d)
        return out
    return _get(f, "wait_map_fns", go)


def has_path_def(f):
    """The cycle test: takes the wait-for map (by reference) and returns bool."""
    def go():
        c = [d for d in wait_map_fns(f) if f.ty(f.fns[d]["output"]).k == "bool" and any(_mentions_wait_map(f, t) for t in f.fns[d]["inputs"])]
        c = [d for d in c if f.by_def.get(d)] or c       # after the splice, inlined wrappers are gone
        if len(c) > 1:
            # `closes_cycle(g, caller, callee) = caller == callee || has_path(g, ..)`: a boolean wrapper around the walk is an
            # ordinary helper (inlined into its caller); the cycle test is the candidate that calls no other candidate
            calls = {d: {(blk.term.get("fn") or {}).get("def") for b in f.family(d) for blk in b.calls()} for d in c}
            leaf = [d for d in c if not (calls[d] & (set(c) - {d}))]
            if len(leaf) == 1:
                return leaf[0]
        return c[0] if len(c) == 1 else None
    return _get(f, "has_path", go)


def wait_for_graph_def(f):
    """The accessor returning the global Mutex around the wait-for map."""
    def go():
        c = []
        for d in wait_map_fns(f):
            out = f.ty(f.fns[d]["output"])
            if any(x.is_adt("std::sync::Mutex") for x in out.walk()) and not f.fns[d]["inputs"]:
                c.append(d)
        return c[0] if len(c) == 1 else None
    return _get(f, "wait_for_graph", go)


def record_def(f):
    """The dead-letter recorder: the crate function taking a DeadLetterReason by value."""
    def go():
        c = [d for d, fn in f.fns.items() if fn.get("has_body") and f.by_def.get(d) and any(f.ty(t).is_adt("dead_letter::DeadLetterReason") for t in fn["inputs"])]
        # the recorder is told *whose* message died: a convenience wrapper that derives the identity itself
        # (`fn dead_letter(&self, reason, op) { reason.record(self.identity(), op) }`) is an ordinary helper
        with_id = [d for d in c if any(f.ty(t).is_adt("Identity") for t in f.fns[d]["inputs"])]
        if with_id:
            c = with_id
        if len(c) > 1:
            # the recorder may delegate to private helpers that also take the reason: the entry point is the candidate
            # that no other candidate calls
            called = set()
            for d in c:
                for b in f.family(d):
                    for blk in b.calls():
                        x = (blk.term.get("fn") or {}).get("def")
                        if x in c and x != d:
                            called.add(x)
            c = [d for d in c if d not in called]
        return c[0] if len(c) == 1 else None
    return _get(f, "record", go)


class Names:
    """Def paths / variant names of private ADTs, found semantically."""
    mailbox = None      # element type of the mailbox channel (owns an ActorRef)
    control = None      # element type of the control channel
    envelope = None     # variant of `mailbox` that carries a boxed payload
    stop = None         # the other variant of `mailbox` (graceful stop marker)
    guard = None        # ADT whose Drop impl removes an entry of the wait-for map


def names(f):
    def go():
        n = Names()
        # the two `mpsc::Receiver<X>` parameter types of crate functions: X that owns an ActorRef is the mailbox message
        elems = {}
        for d, fn in f.fns.items():
            for t in fn["inputs"]:
                ty = f.ty(t)
                if ty.is_adt("tokio::sync::mpsc::Receiver") and ty.args and ty.args[0].k == "adt" and ty.args[0].defn in f.adts:
                    elems[ty.args[0].defn] = f.adts[ty.args[0].defn]
        for defn, a in elems.items():
            owns_ref = any(any(x.is_adt("actor_ref::ActorRef") for x in f.ty(fl["ty"]).walk()) for v in a["variants"] for fl in v["fields"])
            if owns_ref and n.mailbox is None:
                n.mailbox = defn
                for v in a["variants"]:
                    boxed = any(any(x.k == "dyn" for x in f.ty(fl["ty"]).walk()) and len(v["fields"]) >= 2 for fl in v["fields"])
                    if boxed and n.envelope is None:
                        n.envelope = v["name"]
                    elif not boxed and n.stop is None:
                        n.stop = v["name"]
            elif not owns_ref and n.control is None:
                n.control = defn
        # wait-for guard: Drop impl whose body removes from the wait-for map
        for im in f.impls:
            if im.get("trait") == "std::ops::Drop":
                for it in im["items"]:
                    b = f.body(it["def"])
                    if b is None:
                        continue
                    for blk in b.calls():
                        fn = blk.term.get("fn") or {}
                        if fn.get("name") == "remove" and (fn.get("def") or "").startswith("std::collections::HashMap"):
                            ta = [f.ty(t) for t in fn.get("targs", [])]
                            if len(ta) >= 2 and ta[0].k == "uint" and ta[1].is_adt("Identity"):
                                st = f.ty(im["self_ty"])
                                if st.k == "adt":
                                    n.guard = st.defn
        return n
    return _get(f, "names", go)



def bookkeeping_fns(f):
    """wait-for bookkeeping: functions whose signature mentions the wait-for map, plus plain
    (non-async) crate functions that call one of them (e.g. an extracted `track_ask` helper or
    the guard's destructor)."""
    def go():
        base = set(wait_map_fns(f))
        out = set(base)
        for b in f.fn_bodies():
            d = b.root or b.defn
            fn = f.fns.get(d)
            if fn is None or fn.get("async") or b.is_coroutine or d in out:
                continue
            for blk in b.calls():
                c = (blk.term.get("fn") or {}).get("def")
                if c in base:
                    out.add(d)
        return out
    return _get(f, "bookkeeping_fns", go)


def guard_drop_def(f):
    """Def path of the Drop::drop implementation of the wait-for guard (wherever the guard type lives)."""
    def go():
        g = names(f).guard
        for im in f.impls:
            if im.get("trait") == "std::ops::Drop" and g is not None:
                st = f.ty(im["self_ty"])
                if st.k == "adt" and st.defn == g:
                    for it in im["items"]:
                        if f.body(it["def"]) is not None:
                            return it["def"]
        return None
    return _get(f, "guard_drop", go)


def metrics_accessors(f):
    """Crate-private functions returning (a reference to / an Arc of) the metrics collector."""
    def go():
        out = []
        for d, fn in f.fns.items():
            if fn.get("has_body") and fn.get("vis") != "Public" and not fn.get("impl_trait"):
                if any(x.is_adt("metrics::collector::MetricsCollector") for x in f.ty(fn["output"]).walk()):
                    out.append(d)
        return out
    return _get(f, "metrics_accessors", go)


def blocking_roles(f):
    """{'blocking_tell': {'nt': def, 'wt': def}, 'blocking_ask': {...}}: the private primitives behind the public blocking
    API, found by call structure (the private inherent methods the public function calls directly; the one taking a
    Duration is the timeout variant). A role that cannot be resolved is absent (callers fail closed)."""
    def go():
        out = {}
        for d, fn in f.fns.items():
            if fn.get("vis") == "Public" and fn.get("name") in ("blocking_tell", "blocking_ask") and not fn.get("impl_trait") and fn.get("has_body"):
                cands = []
                for b in f.family(d):
                    for blk in b.calls():
                        c = (blk.term.get("fn") or {}).get("def")
                        cf = f.fns.get(c)
                        if cf and cf.get("has_body") and cf.get("vis") != "Public" and not cf.get("impl_trait") and cf.get("impl") == fn.get("impl") and c not in cands:
                            cands.append(c)
                r = {}
                wt = [c for c in cands if any(f.ty(t).is_adt("std::time::Duration") for t in f.fns[c]["inputs"])]
                nt = [c for c in cands if c not in wt]
                if len(wt) == 1:
                    r["wt"] = wt[0]
                if len(nt) == 1:
                    r["nt"] = nt[0]
                elif not nt and any((blk.term.get("fn") or {}).get("name") in ("blocking_send", "blocking_recv") and "tokio::sync" in ((blk.term.get("fn") or {}).get("def") or "")
                                    for b in f.family(d) for blk in b.calls()):
                    # the no-timeout primitive was inlined into the `None` arm of the public function: the public function
                    # itself plays that role (C17 O17.2 then requires the enqueue to sit under `timeout == None`)
                    r["nt"] = d
                out[fn["name"]] = r
        return out
    return _get(f, "blocking_roles", go)


def keep_defs(f):
    """Crate-private functions that have a role of their own in the rules and are therefore not inlined into their
    callers (inline.py): found by what they do, not by name."""
    from prov import Tracer, strip_wrappers
    keep = set()
    for g in (record_def, has_path_def, wait_for_graph_def):
        d = g(f)
        if d:
            keep.add(d)
    # the detection bookkeeping whose signature mentions the wait-for map and that has a role: the cycle test (-> bool), the
    # accessor (-> the Mutex) and the path formatter (-> String); other helpers over the map (e.g. an iterator over the
    # wait chain shared by the test and the formatter) are inlined into them
    for d in wait_map_fns(f):
        out = f.ty(f.fns[d]["output"])
        if out.k == "bool" and has_path_def(f) not in (None, d):
            continue        # a boolean wrapper around the cycle test: inlined
        if out.k == "bool" or any(x.is_adt("std::sync::Mutex") for x in out.walk()) or out.is_adt("std::string::String") or out.s.endswith("String"):
            keep.add(d)
    # accessors handing out the metrics collector (observation only; the cross-configuration diff erases them by role)
    keep |= set(metrics_accessors(f))
    # the lifecycle: the async fn whose future a public function hands to tokio's spawn
    for b in f.fn_bodies():
        for blk in b.calls():
            fn = blk.term.get("fn") or {}
            if fn.get("krate") == "tokio" and fn.get("name") == "spawn" and blk.term["args"]:
                tr = Tracer(b)
                t = strip_wrappers(tr.norm(tr.call_args(blk.idx)[0]))
                guard = 0
                while t[0] == "call" and guard < 6 and t[2] not in f.fns:
                    a = tr.call_args(t[1])
                    if not a:
                        break
                    t = strip_wrappers(tr.norm(a[0]))       # e.g. Instrument::instrument(fut, span)
                    guard += 1
                if t[0] == "call" and t[2] in f.fns and f.fns[t[2]].get("has_body"):
                    keep.add(t[2])
    # the blocking primitives: private inherent methods called directly by the public blocking_tell / blocking_ask
    for d, fn in f.fns.items():
        if fn.get("vis") == "Public" and fn.get("name") in ("blocking_tell", "blocking_ask") and not fn.get("impl_trait") and fn.get("has_body"):
            for b in f.family(d):
                for blk in b.calls():
                    c = (blk.term.get("fn") or {}).get("def")
                    cf = f.fns.get(c)
                    if cf and cf.get("has_body") and cf.get("vis") != "Public" and not cf.get("impl_trait") and cf.get("impl") == fn.get("impl"):
                        keep.add(c)
    return keep
