"""Debug pretty-printer: python3 dump.py <facts.json> <def-substring> [--full]"""
import sys
from facts import Facts


def place(p):
    s = "_%d" % p["l"]
    for e in p["p"]:
        if e == "*":
            s = "(*%s)" % s
        elif isinstance(e, int):
            s = "%s.%d" % (s, e)
        elif "v" in e:
            s = "(%s as %s)" % (s, e.get("name") or e["v"])
        else:
            s = "%s[%s]" % (s, e)
    return s


def operand(f, o):
    if "copy" in o:
        return place(o["copy"])
    if "move" in o:
        return "move " + place(o["move"])
    if "const" in o:
        c = o["const"]
        if "fn" in c:
            return "fn:" + c["fn"]["def"]
        return "const " + c["s"]
    return str(o)


def fnref(f, fn):
    s = fn["def"]
    if fn.get("targs"):
        s += "<" + ", ".join(f.ty(t).s for t in fn["targs"]) + ">"
    if "resolved" in fn:
        s += " => " + fn["resolved"]["def"]
    return s


def rvalue(f, rv):
    if "use" in rv:
        return operand(f, rv["use"])
    if "ref" in rv:
        return ("&mut " if rv["mut"] else "&fake " if rv.get("fake") else "&") + place(rv["ref"])
    if "cast" in rv:
        return "%s as %s (%s)" % (operand(f, rv["cast"]), f.ty(rv["ty"]).s, rv["kind"])
    if "binop" in rv:
        return "%s(%s, %s)" % (rv["binop"], operand(f, rv["a"]), operand(f, rv["b"]))
    if "unop" in rv:
        return "%s(%s)" % (rv["unop"], operand(f, rv["a"]))
    if "discr" in rv:
        return "discriminant(%s)" % place(rv["discr"])
    if "agg" in rv:
        ops = [operand(f, o) for o in rv["ops"]]
        if rv["agg"] == "adt":
            return "%s::%s{%s}" % (rv["adt"], rv["variant"], ", ".join("%s: %s" % (n, o) for n, o in zip(rv["fields"], ops)))
        if rv["agg"] in ("closure", "coroutine"):
            return "%s[%s](%s)" % (rv["agg"], rv["def"], ", ".join(ops))
        return "%s(%s)" % (rv["agg"], ", ".join(ops))
    return str(rv)


def dump_body(f, b, full=False):
    print("=== %s  (%s, %s) args=%d blocks=%d" % (b.name, b.def_kind, b.coroutine_kind, b.arg_count, len(b.blocks)))
    for i, l in enumerate(b.locals):
        if full or l.get("name"):
            print("   let _%d: %s  // %s" % (i, f.ty(l["ty"]).s, l.get("name")))
    for u in b.upvars:
        print("   upvar %s = %s" % (u["name"], place(u["place"])))
    for blk in b.blocks:
        print(" bb%d%s:" % (blk.idx, " (cleanup)" if blk.cleanup else ""))
        for st in blk.stmts:
            if st["k"] == "assign":
                print("    %s = %s   // %s" % (place(st["place"]), rvalue(f, st["rv"]), f.span(st["span"]).loc))
            elif full:
                print("    %s" % st)
        t = blk.term
        k = t["k"]
        sp = f.span(t["span"])
        tail = "   // %s%s" % (sp.loc, (" [" + ",".join(sp.macros[:3]) + "]") if sp.macros else "")
        if k == "call":
            fn = fnref(f, t["fn"]) if "fn" in t else operand(f, t["fnop"])
            print("    %s = %s(%s) -> %s unwind %s%s" % (place(t["dest"]), fn, ", ".join(operand(f, a) for a in t["args"]), t["target"], t["unwind"], tail))
        elif k == "switch":
            print("    switch %s %s otherwise %s%s" % (operand(f, t["discr"]), t["arms"], t["otherwise"], tail))
        elif k == "drop":
            print("    drop(%s) -> %s unwind %s%s" % (place(t["place"]), t["target"], t["unwind"], tail))
        elif k == "yield":
            print("    yield %s -> resume %s (arg %s) drop %s%s" % (operand(f, t["value"]), t["resume"], place(t["resume_arg"]), t["drop"], tail))
        elif k == "assert":
            print("    assert %s == %s -> %s unwind %s  %s%s" % (operand(f, t["cond"]), t["expected"], t["target"], t["unwind"], t["msg"][:40], tail))
        else:
            rest = {x: y for x, y in t.items() if x not in ("k", "span")}
            print("    %s %s%s" % (k, rest, tail))
    if b.layout:
        print("  LAYOUT")
        for i, s in enumerate(b.layout["saved"]):
            print("    saved %d: %s : %s" % (i, s["name"], f.ty(s["ty"]).s))
        for i, v in enumerate(b.layout["variants"]):
            print("    variant %d: %s @ %s" % (i, v["fields"], f.span(v["span"]).loc))


if __name__ == "__main__":
    f = Facts(sys.argv[1])
    pat = sys.argv[2]
    full = "--full" in sys.argv
    exact = "--exact" in sys.argv
    for b in f.bodies.values():
        if (b.name == pat) if exact else (pat in b.name):
            dump_body(f, b, full)
