"""Ownership walk over exported types: does a value of this type (possibly) own a strong
actor handle?  Strong = ActorRef, a strong mpsc Sender, a mailbox message (an envelope owns an
ActorRef), a strong type-erased handle. References, weak handles, receivers and foreign opaque
futures own none. Crate-local coroutines are looked into (captures + saved locals)."""

STRONG_ADTS = {"actor_ref::ActorRef", "tokio::sync::mpsc::Sender",
               "tokio::sync::mpsc::OwnedPermit", "tokio::sync::mpsc::UnboundedSender"}
NON_OWNING_ADTS = {"tokio::sync::mpsc::Receiver", "tokio::sync::mpsc::WeakSender", "actor_ref::ActorWeak",
                   "std::marker::PhantomData", "tokio::sync::mpsc::UnboundedReceiver", "tokio::sync::mpsc::WeakUnboundedSender"}
STRONG_DYN = {"handler::TellHandler", "handler::AskHandler", "actor_control::ActorControl", "PayloadHandler"}


def owns_strong(f, ty, _seen=None, _depth=0):
    """Returns a witness string (path to the strong handle) or None."""
    import anchors
    if ty.k == "adt" and ty.defn == anchors.names(f).mailbox:
        return ty.s
    if _seen is None:
        _seen = set()
    if ty.id in _seen or _depth > 12:
        return None
    _seen.add(ty.id)
    k = ty.k
    if k == "adt":
        if ty.defn in STRONG_ADTS:
            return ty.s
        if ty.defn in NON_OWNING_ADTS:
            return None
        a = f.adts.get(ty.defn)
        if a is not None:
            for v in a["variants"]:
                for fld in v["fields"]:
                    w = owns_strong(f, f.ty(fld["ty"]), _seen, _depth + 1)
                    if w:
                        return "%s.%s: %s" % (ty.defn, fld["name"], w)
        for x in ty.args:
            w = owns_strong(f, x, _seen, _depth + 1)
            if w:
                return "%s<..%s..>" % (ty.defn, w)
        return None
    if k in ("tuple", "array", "slice"):
        for x in ty.args:
            w = owns_strong(f, x, _seen, _depth + 1)
            if w:
                return w
        return None
    if k in ("ref", "refmut", "ptr", "fndef", "fnptr", "param", "bool", "int", "uint", "float", "str", "char", "never"):
        return None
    if k == "dyn":
        if ty.defn in STRONG_DYN:
            return ty.s
        return None
    if k in ("closure", "coroutine"):
        for x in ty.args:       # captured variables
            w = owns_strong(f, x, _seen, _depth + 1)
            if w:
                return "capture of %s: %s" % (ty.defn, w)
        if k == "coroutine":
            b = f.body(ty.defn)
            if b is not None and b.layout:
                for s in b.layout["saved"]:
                    w = owns_strong(f, f.ty(s["ty"]), _seen, _depth + 1)
                    if w:
                        return "local `%s` of %s: %s" % (s["name"], ty.defn, w)
        return None
    if k == "opaque":
        h = ty.hidden
        if h is not None:
            return owns_strong(f, h, _seen, _depth + 1)
        return None     # foreign opaque future (e.g. Receiver::recv): borrows, owns nothing strong
    if k in ("projection", "inherent", "free"):
        return None
    return None


def maybe_init_blocks(body, cfg, local):
    """Forward may-analysis: set of blocks at whose *entry* `local` may hold a value.
    gen: whole-local assignment / call destination / being a parameter; kill: `move local`."""
    n = len(body.blocks)

    def transfer(bb, init):
        blk = body.blocks[bb]
        for st in blk.stmts:
            if st["k"] != "assign":
                continue
            if _moves(st["rv"], local):
                init = False
            pl = st["place"]
            if pl["l"] == local and not pl["p"]:
                init = True
        t = blk.term
        if t["k"] == "call":
            for a in t["args"]:
                if "move" in a and a["move"]["l"] == local and not a["move"]["p"]:
                    init = False
            if t["dest"]["l"] == local and not t["dest"]["p"]:
                init = True
        elif t["k"] == "yield":
            v = t["value"]
            if "move" in v and v["move"]["l"] == local and not v["move"]["p"]:
                init = False
        return init

    entry = [False] * n
    entry[0] = 1 <= local <= body.arg_count
    work = [0]
    outv = {}
    seen = set()
    while work:
        bb = work.pop()
        o = transfer(bb, entry[bb])
        if bb in seen and outv.get(bb) == o:
            continue
        seen.add(bb)
        outv[bb] = o
        for s in cfg.succ[bb]:
            if o and not entry[s]:
                entry[s] = True
                work.append(s)
            elif s not in seen:
                work.append(s)
    return {i for i in range(n) if entry[i]}


def _moves(rv, local):
    def op_moves(op):
        return "move" in op and op["move"]["l"] == local and not op["move"]["p"]
    if "use" in rv:
        return op_moves(rv["use"])
    if "agg" in rv:
        return any(op_moves(o) for o in rv["ops"])
    if "cast" in rv:
        return op_moves(rv["cast"])
    return False
