"""E1 CFG kit over exported MIR bodies: successors (with/without unwind edges), constant-switch
pruning, dominators / post-dominators, reachability, await recognition."""
from collections import deque


def const_int(op):
    """Integer value of a constant operand, or None."""
    if "const" in op:
        c = op["const"]
        if "int" in c:
            return int(c["int"])
        s = c.get("s")
        if s == "true":
            return 1
        if s == "false":
            return 0
    return None


class CFG:
    def __init__(self, body, unwind=False, prune=True, cancel=False):
        """unwind: include unwind (panic) edges.  cancel: include the `drop:` edge of Yield
        terminators (future dropped while suspended).  prune: drop edges of switches on
        constants."""
        self.body = body
        self.n = len(body.blocks)
        self.unwind = unwind
        self.succ = [[] for _ in range(self.n)]
        for b in body.blocks:
            self.succ[b.idx] = self._succs(b, unwind, prune, cancel)
        self.pred = [[] for _ in range(self.n)]
        for i, ss in enumerate(self.succ):
            for s in ss:
                self.pred[s].append(i)
        self._dom = None
        self._pdom = None
        self._reach0 = None

    @staticmethod
    def _uw(t, unwind):
        u = t.get("unwind")
        if unwind and isinstance(u, int):
            return [u]
        return []

    def _succs(self, b, unwind, prune, cancel):
        t = b.term
        k = t["k"]
        out = []
        if k == "goto":
            out = [t["target"]]
        elif k == "switch":
            c = const_int(t["discr"]) if prune else None
            if c is not None:
                tgt = t["otherwise"]
                for v, bb in t["arms"]:
                    if int(v) == c:
                        tgt = bb
                out = [tgt]
            else:
                out = [bb for _, bb in t["arms"]] + [t["otherwise"]]
        elif k in ("drop", "assert", "false_unwind"):
            out = [t["target"]] + self._uw(t, unwind)
        elif k == "call":
            out = ([t["target"]] if t["target"] is not None else []) + self._uw(t, unwind)
        elif k == "false_edge":
            out = [t["target"]]
        elif k == "yield":
            out = [t["resume"]]
            if cancel and t.get("drop") is not None:
                out.append(t["drop"])
        elif k in ("return", "resume", "terminate", "unreachable", "coroutine_drop"):
            out = []
        else:
            out = []
        seen = []
        for s in out:
            if s not in seen:
                seen.append(s)
        return seen

    # ---- reachability -------------------------------------------------------------------
    def reachable_from(self, start, avoid=()):
        avoid = set(avoid)
        seen = set()
        dq = deque([start] if isinstance(start, int) else list(start))
        while dq:
            x = dq.popleft()
            if x in seen or x in avoid:
                continue
            seen.add(x)
            for s in self.succ[x]:
                if s not in seen and s not in avoid:
                    dq.append(s)
        return seen

    def reach_after(self, start, avoid=()):
        """Blocks reachable from the successors of `start` (start itself only via a cycle)."""
        return self.reachable_from(self.succ[start], avoid)

    @property
    def live(self):
        if self._reach0 is None:
            self._reach0 = self.reachable_from(0)
        return self._reach0

    def exits(self, kinds=("return",)):
        return [b.idx for b in self.body.blocks if b.term["k"] in kinds and b.idx in self.live]

    # ---- dominators ---------------------------------------------------------------------
    def _rpo(self, succ, roots):
        seen = set()
        order = []
        for r in roots:
            if r in seen:
                continue
            stack = [(r, iter(succ[r]))]
            seen.add(r)
            while stack:
                node, it = stack[-1]
                adv = False
                for s in it:
                    if s not in seen:
                        seen.add(s)
                        stack.append((s, iter(succ[s])))
                        adv = True
                        break
                if not adv:
                    order.append(node)
                    stack.pop()
        order.reverse()
        return order

    def _idoms(self, succ, pred, roots):
        # Cooper-Harvey-Kennedy with a virtual root
        VR = -1
        order = self._rpo(succ, roots)
        idx = {n: i + 1 for i, n in enumerate(order)}
        idx[VR] = 0
        idom = {VR: VR}
        for r in roots:
            idom[r] = VR
        changed = True

        def inter(a, b):
            while a != b:
                while idx[a] > idx[b]:
                    a = idom[a]
                while idx[b] > idx[a]:
                    b = idom[b]
            return a

        while changed:
            changed = False
            for n in order:
                if n in roots:
                    continue
                new = None
                for p in pred[n]:
                    if p in idom and p in idx:
                        new = p if new is None else inter(p, new)
                if new is not None and idom.get(n) != new:
                    idom[n] = new
                    changed = True
        return idom

    @property
    def idom(self):
        if self._dom is None:
            self._dom = self._idoms(self.succ, self.pred, [0])
        return self._dom

    def dominates(self, a, b):
        """a dominates b (a on every path from entry to b)."""
        idom = self.idom
        if b not in idom:
            return False
        x = b
        while x != -1:
            if x == a:
                return True
            x = idom[x]
        return False

    @property
    def ipdom(self):
        if self._pdom is None:
            roots = [b.idx for b in self.body.blocks if not self.succ[b.idx] and b.idx in self.live]
            self._pdom = self._idoms(self.pred, self.succ, roots)
        return self._pdom

    def postdominates(self, a, b):
        """a post-dominates b (a on every path from b to any exit of this graph)."""
        ip = self.ipdom
        if b not in ip:
            return False
        x = b
        while x != -1:
            if x == a:
                return True
            x = ip[x]
        return False

    def control_equivalent(self, a, b):
        return (self.dominates(a, b) and self.postdominates(b, a)) or (
            self.dominates(b, a) and self.postdominates(a, b))

    # ---- paths ---------------------------------------------------------------------------
    def path(self, src, dst, avoid=()):
        """A shortest path src -> dst (list of blocks) or None."""
        avoid = set(avoid)
        prev = {src: None}
        dq = deque([src])
        while dq:
            x = dq.popleft()
            if x == dst and x != src or (x == dst and prev[x] is not None):
                break
            for s in self.succ[x]:
                if s in avoid or s in prev:
                    continue
                prev[s] = x
                if s == dst:
                    dq.clear()
                    break
                dq.append(s)
        if dst not in prev:
            return None
        out = []
        x = dst
        while x is not None:
            out.append(x)
            x = prev[x]
        return list(reversed(out))

    def in_cycle(self, bb):
        return bb in self.reach_after(bb)


def callee(term):
    """Def path of a call's callee (declared, not resolved) or None for indirect calls."""
    fn = term.get("fn")
    return fn["def"] if fn else None


def callee_resolved(term):
    fn = term.get("fn")
    if not fn:
        return None
    r = fn.get("resolved")
    return r["def"] if r else fn["def"]


PANIC_ENTRY = (
    "core::panicking::panic_fmt", "std::rt::panic_fmt", "core::panicking::panic",
    "std::rt::begin_panic", "core::panicking::panic_explicit", "core::panicking::panic_display",
    "core::panicking::unreachable_display", "core::panicking::assert_failed",
    "core::panicking::panic_nounwind", "core::panicking::panic_str_2015",
    "std::panicking::begin_panic", "core::option::unwrap_failed", "core::result::unwrap_failed",
    "core::option::expect_failed",
)


def is_panic_call(term):
    c = callee(term)
    if c is None:
        return False
    if c in PANIC_ENTRY:
        return True
    # a call that never returns and is in core::panicking / std::rt
    if term.get("target") is None and (c.startswith("core::panicking::") or c.startswith("std::rt::") or c.startswith("std::panicking::")):
        return True
    return False
