"""E2 provenance: symbolic terms for "where does this operand come from".

Terms are hashable tuples:
  ("param", i)                    function parameter local _i
  ("upvar", k, name)              captured variable k of a closure / coroutine (`_1.k`)
  ("const", s) ("int", n) ("fn", def)
  ("call", bb, callee_def)        result of the call terminating block bb
  ("await", fut, poll_bb)         output of awaiting `fut`
  ("agg", tag, fields)            tag = ("adt", adt, variant, fieldnames) | ("tuple",) | ("closure", def) | ("coroutine", def) | ("array",)
  ("ref", t) ("deref", t) ("field", i, t) ("downcast", name, t)
  ("cast", kind, t) ("discr", t) ("binop", op, a, b) ("unop", op, a)
  ("phi", (t, ...))               several reaching definitions (flow-insensitive)
  ("resume", bb) ("tlref", def) ("unknown", why) ("cycle", l)
"""
from cfg import callee

POLL_PATHS = ("core::future::future::Future::poll",)
INTO_FUTURE_PATHS = ("core::future::into_future::IntoFuture::into_future",)
PIN_NEW = ("new_unchecked", "new")


def fn_path(term):
    fn = term.get("fn")
    return fn.get("path") if fn else None


def _named_const(f, s, depth=0):
    """A use of a crate-level `const NAME: T = <literal>` is the literal (so `const OP: &str = "ask"` and "ask" are one term)."""
    cb = f.by_def.get(s) if hasattr(f, "by_def") else None
    if cb and len(cb) == 1 and cb[0].def_kind.startswith("Const") and depth < 4:
        b = cb[0]
        defs = [st for blk in b.blocks for st in blk.stmts if st["k"] == "assign" and st["place"]["l"] == 0 and not st["place"]["p"]]
        if len(defs) == 1 and "use" in defs[0]["rv"] and "const" in defs[0]["rv"]["use"]:
            c = defs[0]["rv"]["use"]["const"]
            if "int" in c:
                return ("int", int(c["int"]))
            if "fn" not in c:
                return _named_const(f, c["s"], depth + 1)
    return ("const", s)


class Tracer:
    def __init__(self, body):
        self.body = body
        self.f = body.f
        self.defs = {}
        self.partial = set()
        for b in body.blocks:
            for i, st in enumerate(b.stmts):
                if st["k"] == "assign":
                    p = st["place"]
                    if p["p"]:
                        self.partial.add(p["l"])
                    else:
                        self.defs.setdefault(p["l"], []).append(("assign", b.idx, i, st["rv"]))
            t = b.term
            if t["k"] == "call":
                p = t["dest"]
                if p["p"]:
                    self.partial.add(p["l"])
                else:
                    self.defs.setdefault(p["l"], []).append(("call", b.idx, None, t))
            elif t["k"] == "yield":
                p = t["resume_arg"]
                if not p["p"]:
                    self.defs.setdefault(p["l"], []).append(("resume", b.idx, None, t))
        self.memo = {}
        self.stack = set()
        self.is_closure = body.def_kind == "Closure"
        self.upvar_names = {}
        for u in body.upvars:
            pl = u["place"]
            if pl["l"] == 1:
                ks = [e for e in pl["p"] if isinstance(e, int)]
                if ks:
                    self.upvar_names[ks[0]] = u["name"]

    # ---- terms ---------------------------------------------------------------------------
    def local(self, l):
        if l in self.memo:
            return self.memo[l]
        if l in self.stack:
            return ("cycle", l)
        self.stack.add(l)
        try:
            t = self._local(l)
        finally:
            self.stack.discard(l)
        if not _has_cycle(t):
            self.memo[l] = t
        return t

    def _local(self, l):
        ds = self.defs.get(l, [])
        terms = []
        if 1 <= l <= self.body.arg_count:
            terms.append(("param", l))
        for kind, bb, i, payload in ds:
            if kind == "assign":
                terms.append(self.rvalue(payload))
            elif kind == "call":
                terms.append(self._call_term(bb, payload))
            else:
                terms.append(("resume", bb))
        if not terms:
            return ("unknown", "undefined _%d" % l)
        uniq = []
        for t in terms:
            if t not in uniq:
                uniq.append(t)
        if len(uniq) == 1:
            return uniq[0]
        return ("phi", tuple(uniq))

    def _call_term(self, bb, t):
        return ("call", bb, callee(t) or "<indirect>")

    def operand_at(self, bb, op, depth=0):
        """The operand as seen by the terminator of block `bb`: like operand(), but when the operand is a plain local only
        those of its definitions are kept whose block can reach `bb`, and plain moves are followed the same way from the
        block of the move (a little flow sensitivity: a constant assigned on a path that was threaded past this block is
        not a value of the switch subject here)."""
        pl = op.get("copy") or op.get("move")
        if pl is None or pl["p"] or not self.defs.get(pl["l"]) or (1 <= pl["l"] <= self.body.arg_count) or depth > 4:
            return self.operand(op)
        from rules.common import cfg_of
        cfg = cfg_of(self.body)
        terms = []
        for kind, dbb, i, payload in self.defs[pl["l"]]:
            if dbb != bb and bb not in cfg.reachable_from(dbb):
                continue
            if kind == "assign" and "use" in payload and ((payload["use"].get("move") or payload["use"].get("copy") or {}).get("p") == []):
                t = self.operand_at(dbb, payload["use"], depth + 1)
            else:
                t = self.rvalue(payload) if kind == "assign" else self._call_term(dbb, payload) if kind == "call" else ("resume", dbb)
            for x in (t[1] if t[0] == "phi" else [t]):
                if x not in terms:
                    terms.append(x)
        if not terms:
            return self.operand(op)
        return terms[0] if len(terms) == 1 else ("phi", tuple(terms))

    def place(self, p):
        t = self.local(p["l"])
        if self.is_closure and p["l"] == 1 and p["p"]:
            # `_1.k` / `(*_1).k` / `(*_1.k)`: a captured variable
            proj = list(p["p"])
            k = None
            rest = []
            for idx, e in enumerate(proj):
                if isinstance(e, int) and k is None:
                    k = e
                    rest = proj[idx + 1:]
                    break
                elif e != "*":
                    break
            if k is not None:
                t = ("upvar", k, self.upvar_names.get(k))
                for e in rest:
                    t = self._project(t, e)
                return t
        for e in p["p"]:
            t = self._project(t, e)
        return t

    def _project(self, t, e):
        if e == "*":
            return simplify(("deref", t))
        if isinstance(e, int):
            return simplify(("field", e, t))
        if isinstance(e, dict) and "v" in e:
            return simplify(("downcast", e.get("name") or str(e["v"]), t))
        return ("unknown", "proj")

    def operand(self, op):
        if "copy" in op:
            return self.place(op["copy"])
        if "move" in op:
            return self.place(op["move"])
        if "const" in op:
            c = op["const"]
            if "fn" in c:
                return ("fn", c["fn"]["def"])
            if "int" in c:
                return ("int", int(c["int"]))
            return _named_const(self.body.f, c["s"])
        return ("unknown", "operand")

    def rvalue(self, rv):
        if "use" in rv:
            return self.operand(rv["use"])
        if "ref" in rv:
            return simplify(("ref", self.place(rv["ref"])))
        if "rawptr" in rv:
            return simplify(("ref", self.place(rv["rawptr"])))
        if "cast" in rv:
            return ("cast", rv["kind"], self.operand(rv["cast"]), rv["ty"])
        if "binop" in rv:
            return ("binop", rv["binop"], self.operand(rv["a"]), self.operand(rv["b"]))
        if "unop" in rv:
            return ("unop", rv["unop"], self.operand(rv["a"]))
        if "discr" in rv:
            return ("discr", self.place(rv["discr"]))
        if "agg" in rv:
            k = rv["agg"]
            if k == "adt":
                tag = ("adt", rv["adt"], rv["variant"], tuple(rv["fields"]))
            elif k in ("closure", "coroutine", "coroutine_closure"):
                tag = (k, rv["def"])
            else:
                tag = (k,)
            return ("agg", tag, tuple(self.operand(o) for o in rv["ops"]))
        if "tlref" in rv:
            return ("tlref", rv["tlref"])
        return ("unknown", "rvalue")

    # ---- call helpers --------------------------------------------------------------------
    def call_args(self, bb):
        t = self.body.blocks[bb].term
        return [self.operand(a) for a in t["args"]]

    def call_term(self, bb):
        return self.body.blocks[bb].term

    # ---- await normalisation -------------------------------------------------------------
    def norm(self, t, depth=0):
        """Rewrite `(poll(pin(&mut into_future(F))) as Ready).0` into ("await", F, poll_bb) and
        look through transparent steps, recursively."""
        if depth > 40 or not isinstance(t, tuple):
            return t
        k = t[0]
        if k == "field" and t[1] == 0 and t[2][0] == "downcast" and t[2][1] == "Ready":
            inner = t[2][2]
            if inner[0] == "call":
                term = self.call_term(inner[1])
                if fn_path(term) in POLL_PATHS:
                    fut = self.awaited_future(inner[1])
                    return ("await", self.norm(fut, depth + 1), inner[1])
        if k in ("ref", "deref"):
            return simplify((k, self.norm(t[1], depth + 1)))
        if k == "field":
            return simplify(("field", t[1], self.norm(t[2], depth + 1)))
        if k == "downcast":
            return simplify(("downcast", t[1], self.norm(t[2], depth + 1)))
        if k == "cast":
            return ("cast", t[1], self.norm(t[2], depth + 1)) + tuple(t[3:])
        if k == "discr":
            return ("discr", self.norm(t[1], depth + 1))
        if k == "phi":
            return ("phi", tuple(self.norm(x, depth + 1) for x in t[1]))
        if k == "agg":
            return ("agg", t[1], tuple(self.norm(x, depth + 1) for x in t[2]))
        return t

    def awaited_future(self, poll_bb):
        """The future expression awaited by the poll call in `poll_bb` (argument of the
        `into_future` call feeding the pinned local)."""
        args = self.call_args(poll_bb)
        if not args:
            return ("unknown", "poll without args")
        t = args[0]
        # Pin::new_unchecked(&mut *(&mut awaitee))
        guard = 0
        while guard < 20:
            guard += 1
            if t[0] == "call":
                term = self.call_term(t[1])
                fn = term.get("fn") or {}
                if fn.get("name") in PIN_NEW and "Pin" in (fn.get("def") or ""):
                    t = self.call_args(t[1])[0]
                    continue
                if fn.get("path") in INTO_FUTURE_PATHS:
                    return self.call_args(t[1])[0]
                return t
            if t[0] in ("ref", "deref"):
                t = t[1]
                continue
            return t
        return t


def _has_cycle(t):
    if not isinstance(t, tuple):
        return False
    if t and t[0] == "cycle":
        return True
    return any(_has_cycle(x) for x in t if isinstance(x, tuple))


def simplify(t):
    k = t[0]
    if k == "deref" and t[1][0] == "ref":
        return t[1][1]
    if k == "ref" and t[1][0] == "deref":
        # reborrow &*x  ==  x (for provenance purposes)
        return t[1][1]
    if k == "field":
        i, inner = t[1], t[2]
        if inner[0] == "agg" and i < len(inner[2]):
            return inner[2][i]
        if inner[0] == "downcast" and inner[2][0] == "agg":
            agg = inner[2]
            tag = agg[1]
            if tag[0] == "adt" and tag[2] == inner[1] and i < len(agg[2]):
                return agg[2][i]
            if tag[0] == "adt" and tag[2] != inner[1]:
                return INFEASIBLE       # payload of variant V read from a value built as another variant: no feasible path
        if inner[0] == "phi":
            return _phi(simplify(("field", i, x)) for x in inner[1])
    if k == "downcast" and t[2][0] == "phi":
        return _phi(simplify(("downcast", t[1], x)) for x in t[2][1])
    return t


INFEASIBLE = ("infeasible",)


def _phi(members):
    """A phi without infeasible members (a single survivor is the value itself)."""
    ms = []
    for m in members:
        if m != INFEASIBLE and m not in ms:
            ms.append(m)
    if not ms:
        return INFEASIBLE
    return ms[0] if len(ms) == 1 else ("phi", tuple(ms))


def strip_refs(t):
    """Look through references, derefs and pointer casts."""
    while isinstance(t, tuple) and t and t[0] in ("ref", "deref"):
        t = t[1]
    return t


def strip_wrappers(t):
    """Look through refs/derefs and transparent casts (unsize, reborrow)."""
    while isinstance(t, tuple) and t:
        if t[0] in ("ref", "deref"):
            t = t[1]
        elif t[0] == "cast" and (t[1].startswith("ptr:") or t[1] in ("PtrToPtr", "Subtype")):
            t = t[2]
        else:
            break
    return t


def leaves(t):
    """Leaf terms (params, upvars, consts, calls, awaits ...) of a term tree."""
    if not isinstance(t, tuple) or not t:
        return
    k = t[0]
    if k in ("param", "upvar", "const", "int", "fn", "call", "resume", "tlref", "unknown", "cycle"):
        yield t
    elif k == "await":
        yield t
    elif k in ("ref", "deref", "discr"):
        yield from leaves(t[1])
    elif k in ("field", "downcast", "cast"):
        yield from leaves(t[2])
    elif k in ("binop",):
        yield from leaves(t[2])
        yield from leaves(t[3])
    elif k == "unop":
        yield from leaves(t[2])
    elif k == "phi":
        for x in t[1]:
            yield from leaves(x)
    elif k == "agg":
        for x in t[2]:
            yield from leaves(x)


def show(t, depth=0):
    if not isinstance(t, tuple) or not t:
        return str(t)
    k = t[0]
    if depth > 8:
        return "..."
    if k in ("param", "clone_of_param", "closure_param"):
        if len(t) == 3:
            return "%s#%s of %s" % (k, t[2], t[1])
        return "param#%s" % (t[1],)
    if k in ("try_ok", "try_err", "try_break", "try_err?"):
        return "%s(%s)" % (k, show(t[1], depth + 1))
    if k == "upvar":
        return "upvar:%s" % (t[2] or t[1])
    if k in ("const", "int"):
        return "const %s" % (t[1],)
    if k == "fn":
        return "fn %s" % t[1]
    if k == "call":
        return "call@bb%d %s" % (t[1], t[2])
    if k == "await":
        return "await(%s)" % show(t[1], depth + 1)
    if k == "agg":
        tag = t[1]
        name = "%s::%s" % (tag[1], tag[2]) if tag[0] == "adt" else tag[0] if len(tag) == 1 else "%s %s" % tag
        return "%s{%s}" % (name, ", ".join(show(x, depth + 1) for x in t[2]))
    if k in ("ref", "deref", "discr"):
        return "%s(%s)" % (k, show(t[1], depth + 1))
    if k in ("field", "downcast", "cast"):
        return "%s[%s](%s)" % (k, t[1], show(t[2], depth + 1))
    if k == "binop":
        return "%s(%s, %s)" % (t[1], show(t[2], depth + 1), show(t[3], depth + 1))
    if k == "unop":
        return "%s(%s)" % (t[1], show(t[2], depth + 1))
    if k == "phi":
        return "phi(%s)" % " | ".join(show(x, depth + 1) for x in t[1])
    return str(t)


# ---- summaries of pure constructor helpers ---------------------------------------------------
PURE_CALL_NAMES = ("identity", "to_string", "to_owned", "clone", "into", "from", "format", "type_name", "name", "as_str", "new_display", "new", "from_str")
_summary_cache = {}


def ctor_summary(f, defn, adts=None):
    """If `defn` is a crate-local, non-async function whose return value is (on every path) one
    aggregate expression over its parameters and which performs only pure calls, return that
    expression as a term over ("param", i); otherwise None. Lets rules see through helper
    functions such as `fn closed_error(&self) -> Error { Error::Send { .. } }`."""
    key = (f.path, defn)
    if key in _summary_cache:
        return _summary_cache[key]
    res = None
    b = f.body(defn)
    fn = f.fns.get(defn)
    if b is not None and fn is not None and not fn.get("async") and b.def_kind in ("Fn", "AssocFn") and len(b.blocks) <= 60:
        tr = Tracer(b)
        r = strip_wrappers(tr.norm(tr.local(0)))
        core = r
        if core[0] == "agg" and core[1][0] == "adt" and core[1][1] == "std::result::Result" and core[2]:
            core = strip_wrappers(core[2][0])
        if core[0] == "agg" and core[1][0] == "adt" and (adts is None or core[1][1] in adts):
            pure = True
            from cfg import CFG
            live = CFG(b).live
            for blk in b.calls():
                if blk.idx not in live or blk.cleanup:
                    continue
                fnr = blk.term.get("fn") or {}
                nm = fnr.get("name") or ""
                p = fnr.get("path") or ""
                if nm in PURE_CALL_NAMES or p.startswith(("core::fmt", "alloc::fmt", "alloc::string", "core::any", "alloc::str", "core::ops::deref")):
                    continue
                pure = False
            if pure:
                res = (r, tr)
    _summary_cache[key] = res
    return res


def substitute_params(t, args, tr_callee=None, depth=0):
    """Replace ("param", i) leaves of a callee-level term by the caller-level argument terms.
    Call results inside the callee that depend only on parameters (e.g. `self.identity()`) are
    re-expressed as ("calleecall", callee_def, args...)."""
    if not isinstance(t, tuple) or not t or depth > 40:
        return t
    k = t[0]
    if k == "param" and len(t) == 2:
        return args[t[1] - 1] if 0 < t[1] <= len(args) else ("unknown", "param")
    if k == "call" and tr_callee is not None:
        inner = tuple(substitute_params(tr_callee.norm(a), args, tr_callee, depth + 1) for a in tr_callee.call_args(t[1]))
        return ("calleecall", t[2], inner)
    if k in ("ref", "deref", "discr"):
        return simplify((k, substitute_params(t[1], args, tr_callee, depth + 1)))
    if k in ("field", "downcast"):
        return simplify((k, t[1], substitute_params(t[2], args, tr_callee, depth + 1)))
    if k == "cast":
        return ("cast", t[1], substitute_params(t[2], args, tr_callee, depth + 1)) + tuple(t[3:])
    if k == "agg":
        return ("agg", t[1], tuple(substitute_params(x, args, tr_callee, depth + 1) for x in t[2]))
    if k == "phi":
        return ("phi", tuple(substitute_params(x, args, tr_callee, depth + 1) for x in t[1]))
    if k == "await":
        return ("await", substitute_params(t[1], args, tr_callee, depth + 1), t[2])
    return t
