"""Runs the rsav-extract driver over /repo's current working tree for a set of feature
configurations and returns the fact files. Facts are cached under /verif/.cache keyed by a
content hash of the working tree, the driver binary and the toolchain."""
import hashlib
import itertools
import os
import shutil
import subprocess
import sys
import time

VERIF = os.path.dirname(os.path.dirname(os.path.abspath(__file__)))
REPO = os.environ.get("RSAV_REPO", "/repo")
CACHE = os.path.join(VERIF, ".cache")
DRIVER_DIR = os.path.join(VERIF, "driver")
DRIVER = os.path.join(DRIVER_DIR, "target", "release", "rsav-extract")
FEATURES = ["tracing", "metrics", "test-utils", "deadlock-detection"]


def all_configs():
    out = []
    for r in range(len(FEATURES) + 1):
        for c in itertools.combinations(FEATURES, r):
            out.append(tuple(c))
    return out


def config_name(cfg):
    return "+".join(cfg) if cfg else "default"


def _sysroot():
    return subprocess.check_output(["rustc", "+nightly", "--print", "sysroot"], text=True).strip()


def _env():
    env = dict(os.environ)
    env["CARGO_NET_OFFLINE"] = "true"
    env["LD_LIBRARY_PATH"] = _sysroot() + "/lib" + (":" + env["LD_LIBRARY_PATH"] if env.get("LD_LIBRARY_PATH") else "")
    env.pop("RUSTC_WRAPPER", None)
    return env


def build_driver(quiet=True):
    src_newer = False
    if os.path.exists(DRIVER):
        bt = os.path.getmtime(DRIVER)
        for root, _, files in os.walk(os.path.join(DRIVER_DIR, "src")):
            for fn in files:
                if os.path.getmtime(os.path.join(root, fn)) > bt:
                    src_newer = True
    if os.path.exists(DRIVER) and not src_newer:
        return
    r = subprocess.run(["cargo", "+nightly", "build", "--release", "--offline"], cwd=DRIVER_DIR,
                       env=_env(), stdout=subprocess.PIPE, stderr=subprocess.STDOUT, text=True)
    if r.returncode != 0:
        sys.stderr.write(r.stdout)
        raise SystemExit("cannot build the extractor driver")


def tree_hash(repo=REPO):
    h = hashlib.sha256()
    skip_dirs = {"target", ".git", "book", "docs", "skills"}
    for root, dirs, files in os.walk(repo):
        dirs[:] = sorted(d for d in dirs if not (root == repo and d in skip_dirs))
        for fn in sorted(files):
            p = os.path.join(root, fn)
            if not (fn.endswith(".rs") or fn.endswith(".toml") or fn == "Cargo.lock"):
                continue
            h.update(os.path.relpath(p, repo).encode())
            try:
                with open(p, "rb") as fh:
                    h.update(fh.read())
            except OSError:
                h.update(b"<unreadable>")
    with open(DRIVER, "rb") as fh:
        h.update(hashlib.sha256(fh.read()).digest())
    h.update(subprocess.check_output(["rustc", "+nightly", "--version"]))
    return h.hexdigest()[:20]


def _run_cargo(cfg, out_dir, target_dir, repo, extra_args=(), crates="rsactor"):
    env = _env()
    env["RSAV_OUT"] = out_dir
    env["RSAV_CRATES"] = crates
    env["CARGO_INCREMENTAL"] = "0"
    env["RUSTFLAGS"] = "-Zmir-opt-level=0 -Awarnings"
    env["RUSTC_WORKSPACE_WRAPPER"] = DRIVER
    env["CARGO_TARGET_DIR"] = target_dir
    # cargo replays cached results on a warm target dir and would skip the wrapper: a per-run
    # `--cfg` nonce (part of the unit's fingerprint) forces exactly the analysed crate through it.
    # (Nothing is deleted from the shared target dir, so concurrent runs only wait on cargo's lock.)
    nonce = "%d_%d" % (os.getpid(), int(time.time() * 1000))
    cmd = ["cargo", "+nightly", "rustc", "--offline", "-q", "--profile", "check"] + list(extra_args)
    if cfg:
        cmd += ["--features", ",".join(cfg)]
    cmd += ["--", "--cfg", "rsav_nonce=\"%s\"" % nonce]
    r = subprocess.run(cmd, cwd=repo, env=env, stdout=subprocess.PIPE, stderr=subprocess.STDOUT, text=True)
    return r


def extract(configs, repo=REPO, log=None):
    """Returns {config_name: path to rsactor.json}. Raises on build failure (fail closed)."""
    build_driver()
    th = tree_hash(repo)
    base = os.path.join(CACHE, "facts", th)
    try:
        os.utime(base, None)          # LRU: mark this tree's fact set as in use
    except OSError:
        pass
    # RSAV_TARGET_DIR: tools that analyse many scratch copies in parallel give each worker its own cargo target
    # directory (cargo serialises builds that share one)
    target_dir = os.environ.get("RSAV_TARGET_DIR") or os.path.join(CACHE, "target")
    os.makedirs(base, exist_ok=True)
    out = {}
    ran = 0
    for cfg in configs:
        name = config_name(cfg)
        d = os.path.join(base, name)
        fpath = os.path.join(d, "rsactor.json")
        if not os.path.exists(fpath):
            tmp = d + ".tmp%d" % os.getpid()
            shutil.rmtree(tmp, ignore_errors=True)
            os.makedirs(tmp)
            t0 = time.time()
            r = _run_cargo(cfg, tmp, target_dir, repo, extra_args=["--lib", "-p", "rsactor"])
            if r.returncode != 0 or not os.path.exists(os.path.join(tmp, "rsactor.json")):
                # a build that was killed half-way (or two builds that met in the shared target directory) can leave a
                # broken artifact behind: before blaming the tree, build once more in a fresh private target directory
                private = os.path.join(CACHE, "target-retry%d" % os.getpid())
                shutil.rmtree(private, ignore_errors=True)
                try:
                    r = _run_cargo(cfg, tmp, private, repo, extra_args=["--lib", "-p", "rsactor"])
                finally:
                    shutil.rmtree(private, ignore_errors=True)
                if r.returncode == 0 and os.path.exists(os.path.join(tmp, "rsactor.json")):
                    remove_target_if_idle(target_dir)      # the shared one is suspect: start it afresh
            if r.returncode != 0 or not os.path.exists(os.path.join(tmp, "rsactor.json")):
                sys.stderr.write(r.stdout[-4000:])
                shutil.rmtree(tmp, ignore_errors=True)
                raise SystemExit("extraction failed for feature set [%s] (does /repo build?)" % name)
            try:
                os.rename(tmp, d)
            except OSError:
                shutil.rmtree(tmp, ignore_errors=True)  # a concurrent run produced it
            ran += 1
            if log:
                log("extracted %s in %.1fs" % (name, time.time() - t0))
        out[name] = fpath
    _gc(base)
    if ran:
        _gc_target(target_dir)
    return out, th, ran


def remove_target_if_idle(td):
    """Deletes a shared cargo target directory unless a cargo build is running in it (cargo holds an exclusive flock on
    <target>/debug/.cargo-lock while it builds): checks of several trees may run concurrently."""
    import fcntl
    lock = os.path.join(td, "debug", ".cargo-lock")
    fd = None
    try:
        if os.path.exists(lock):
            fd = os.open(lock, os.O_RDWR)
            try:
                fcntl.flock(fd, fcntl.LOCK_EX | fcntl.LOCK_NB)
            except OSError:
                return False
        # everything but the lock file itself goes (a cargo that is waiting on this lock keeps waiting on the same inode)
        for top in os.listdir(td) if os.path.isdir(td) else []:
            pth = os.path.join(td, top)
            if top == "debug" and os.path.isdir(pth):
                for e in os.listdir(pth):
                    if e != ".cargo-lock":
                        q = os.path.join(pth, e)
                        shutil.rmtree(q, ignore_errors=True) if os.path.isdir(q) and not os.path.islink(q) else os.unlink(q)
            elif os.path.isdir(pth) and not os.path.islink(pth):
                shutil.rmtree(pth, ignore_errors=True)
            else:
                os.unlink(pth)
        return True
    finally:
        if fd is not None:
            os.close(fd)


def _gc_target(td, limit_gb=10.0):
    """The shared cargo target directory grows with every distinct repository path that is analysed (path dependencies are
    separate units): start afresh beyond a size limit (only costs a rebuild of the dependencies, ~1 min)."""
    try:
        out = subprocess.run(["du", "-sk", td], stdout=subprocess.PIPE, text=True).stdout.split()
        if out and int(out[0]) > limit_gb * 1024 * 1024:
            remove_target_if_idle(td)
    except Exception:
        pass


def _gc(keep):
    """Keep the cache small: drop fact sets of tree hashes not used recently (keep the 16 most recently used and anything used in the last 15 minutes)."""
    root = os.path.join(CACHE, "facts")
    try:
        ds = sorted((os.path.getmtime(os.path.join(root, d)), d) for d in os.listdir(root))
    except OSError:
        return
    now = time.time()
    for mt, d in ds[:-16]:
        p = os.path.join(root, d)
        if p != keep and now - mt > 900:     # never remove what a concurrent run may be using (mtime = last use)
            shutil.rmtree(p, ignore_errors=True)


if __name__ == "__main__":
    # setup: build the driver and warm the dependency cache
    build_driver(quiet=False)
    t0 = time.time()
    res, th, ran = extract([(), tuple(FEATURES)], log=lambda m: print(m))
    print("setup ok: tree %s, %d extraction(s), %.1fs" % (th, ran, time.time() - t0))
    # warm the dependency cache of the macro-corpus crate (C19)
    try:
        sys.path.insert(0, os.path.join(VERIF, "engine"))
        from rules import c19
        import gen
        t1 = time.time()
        cf, rows, err = c19.build_and_extract(gen.select("quick", 0)[:2], REPO, None)
        print("corpus warm-up: %s in %.1fs" % ("ok" if cf is not None else "FAILED", time.time() - t1))
    except Exception as e:      # setup must not fail because of the warm-up
        print("corpus warm-up skipped: %r" % (e,))
