"""Check runner: extraction, rule evaluation, known findings, evidence, exit code."""
import importlib
import json
import os
import sys
import time

HERE = os.path.dirname(os.path.abspath(__file__))
VERIF = os.path.dirname(HERE)
sys.path.insert(0, HERE)

import extract  # noqa: E402
from facts import Facts  # noqa: E402

TRUSTED = {
    "T1": "tokio mpsc: channel(n) is a FIFO holding at most n messages; send waits while full, enqueues exactly once iff Ok, never on Err, nothing if its future is dropped; recv is cancel-safe and returns None only when closed and empty; dropping the receiver drops queued messages; try_send never waits",
    "T2": "tokio mpsc handles: closed when every Sender (not WeakSender) is dropped or the receiver is closed/dropped; WeakSender::upgrade succeeds iff a Sender exists; strong_count / is_closed report that state",
    "T3": "tokio oneshot: at most one value; receiver resolves to Err iff the sender is dropped unsent",
    "T4": "tokio::select! DSL semantics: `biased;` polls branches top to bottom on every poll; `, if cond` disables a branch when false; unselected branch futures are dropped",
    "T5": "tokio::time::timeout(d, f) polls f first, returns Ok(out) as soon as f completes, otherwise Err(Elapsed) once d has elapsed, not before",
    "T6": "tokio::spawn runs the future as an independent task, a panic unwinds that task only and surfaces as a panic JoinError; LocalKey::scope, Instrument::instrument, FutureExt::boxed, IntoFuture::into_future are transparent wrappers",
    "T7": "std: atomic RMW operations are atomic; OnceLock::set succeeds once; a Mutex is poisoned iff a thread panics while holding its guard; Result::map_err(f) calls f exactly once iff Err; `?` returns the residual unchanged through From",
    "T8": "rustc: the pre-lowering MIR and coroutine layout exported by the pinned nightly describe the program the stable toolchain compiles",
    "T9": "safe Rust ownership: a value is dropped exactly when its owner goes out of scope on every path including unwinding, unless moved; &mut self hooks cannot overlap",
}


class Run:
    def __init__(self, prop, tier, seed):
        self.prop = prop
        self.tier = tier
        self.seed = seed
        self.t0 = time.time()
        self.facts = {}          # config name -> Facts
        self.obligations = []    # dicts
        self.samples = []
        self.stats = {"bodies": 0, "blocks": 0, "call_sites": 0}
        self.trusted = []
        self.not_decided = []
        self.explanation = ""
        self.extra = {}
        self.tree = None
        self.cur_config = None

    # ---- obligation recording -----------------------------------------------------------
    def _rec(self, ok, rule, anchor, msg, loc, detail, nontrivial):
        self.obligations.append({
            "rule": rule, "anchor": anchor, "ok": bool(ok), "msg": msg, "loc": str(loc) if loc else None,
            "detail": detail, "config": self.cur_config, "nontrivial": nontrivial,
        })
        return bool(ok)

    def ok(self, rule, anchor, msg="", loc=None, detail=None, nontrivial=True):
        return self._rec(True, rule, anchor, msg, loc, detail, nontrivial)

    def fail(self, rule, anchor, msg, loc=None, detail=None):
        return self._rec(False, rule, anchor, msg, loc, detail, True)

    def require(self, cond, rule, anchor, msg_fail, msg_ok="", loc=None, detail=None, nontrivial=True):
        if cond:
            return self.ok(rule, anchor, msg_ok, loc, detail, nontrivial)
        return self.fail(rule, anchor, msg_fail, loc, detail)

    def sample(self, obj):
        if len(self.samples) < 40:
            self.samples.append(obj)

    def count_body(self, body):
        self.stats["bodies"] += 1
        self.stats["blocks"] += len(body.blocks)
        self.stats["call_sites"] += sum(1 for _ in body.calls())

    def for_configs(self):
        for name in self.facts:
            self.cur_config = name
            yield name, self.facts[name]
        self.cur_config = None


def load_known():
    p = os.path.join(VERIF, "known_findings.json")
    if not os.path.exists(p):
        return []
    with open(p) as fh:
        return json.load(fh).get("findings", [])


QUICK_CONFIGS = [(), ("tracing",), ("metrics",), ("test-utils",), ("deadlock-detection",),
                 tuple(extract.FEATURES)]


def configs_for(prop, tier, mod):
    if tier == "thorough":
        cfgs = extract.all_configs()
    else:
        cfgs = list(getattr(mod, "QUICK_CONFIGS", QUICK_CONFIGS))
    req = getattr(mod, "REQUIRE_FEATURES", None)
    if req:
        cfgs = [c for c in cfgs if all(r in c for r in req)]
    return cfgs


def main(argv):
    import argparse
    ap = argparse.ArgumentParser(prog="check")
    ap.add_argument("prop")
    ap.add_argument("--tier", default=os.environ.get("VERIF_TIER", "quick"))
    ap.add_argument("--explain", default=None, help="print a stored violation report")
    ap.add_argument("--verbose", "-v", action="store_true")
    a = ap.parse_args(argv)
    tier = a.tier if a.tier in ("quick", "thorough") else "quick"
    try:
        seed = int(os.environ.get("VERIF_SEED", "0"))
    except ValueError:
        seed = 0
    prop = a.prop.upper()
    if a.explain:
        with open(a.explain) as fh:
            rep = json.load(fh)
        print(json.dumps(rep, indent=2))
        print("(re-running the check on the current tree)")
    try:
        mod = importlib.import_module("rules." + prop.lower())
    except ImportError as e:
        print("no rule module for %s: %s" % (prop, e))
        return 2
    run = Run(prop, tier, seed)
    cfgs = configs_for(prop, tier, mod)
    paths, tree, ran = extract.extract(cfgs)
    run.tree = tree
    for attempt in (0, 1):
        try:
            for name, p in paths.items():
                run.facts[name] = Facts(p)
            break
        except FileNotFoundError:
            # a concurrent run's cache clean-up removed the fact set between extraction and loading: extract again
            if attempt:
                raise
            paths, tree, ran = extract.extract(cfgs)
    try:
        mod.run(run)
    except Exception as e:  # fail closed: an engine error is not a pass
        import traceback
        traceback.print_exc()
        run.cur_config = run.cur_config
        run.fail("ENGINE", "engine-error:%s" % type(e).__name__, "rule engine raised %r" % (e,))
    return finish(run, mod, a.verbose)


def finish(run, mod, verbose=False):
    prop = run.prop
    known = [k for k in load_known() if k.get("property") == prop and k.get("status", "known") == "known"]
    known_keys = {k["key"]: k for k in known}
    # group violations by key
    viol = {}
    for o in run.obligations:
        if not o["ok"]:
            key = "%s@%s" % (o["rule"], o["anchor"])
            v = viol.setdefault(key, {"key": key, "rule": o["rule"], "anchor": o["anchor"], "msg": o["msg"],
                                      "loc": o["loc"], "detail": o["detail"], "configs": []})
            if o["config"] and o["config"] not in v["configs"]:
                v["configs"].append(o["config"])
    # tools that point the checks at a scratch copy (RSAV_REPO) send reports/evidence elsewhere, so that the committed
    # evidence always describes runs against /repo itself
    OUT = os.environ.get("RSAV_OUT_DIR") or VERIF
    os.makedirs(os.path.join(OUT, "reports"), exist_ok=True)
    os.makedirs(os.path.join(OUT, "evidence"), exist_ok=True)
    n_new = 0
    lines = []
    for key in sorted(viol):
        v = viol[key]
        if key in known_keys:
            lines.append("KNOWN-FINDING: property=%s %s %s" % (prop, key, known_keys[key].get("what", v["msg"])))
            continue
        n_new += 1
        rp = os.path.join(OUT, "reports", "%s-%d.json" % (prop, n_new))
        with open(rp, "w") as fh:
            json.dump({"property": prop, "tier": run.tier, "tree": run.tree, **v}, fh, indent=1)
        lines.append("VIOLATION property=%s replay=%s" % (prop, rp))
        lines.append("  rule %s at %s [%s]: %s" % (v["rule"], v["loc"] or "-", ",".join(v["configs"]) or "-", v["msg"]))
    # a listed known finding that no longer fires is reported (informational), never silently kept
    for key, k in known_keys.items():
        if key not in viol:
            lines.append("NOTE: known finding %s no longer fires on this tree" % key)
    total = len(run.obligations)
    okc = sum(1 for o in run.obligations if o["ok"])
    distinct = len({(o["rule"], o["anchor"]) for o in run.obligations if o["nontrivial"]})
    by_rule = {}
    for o in run.obligations:
        r = by_rule.setdefault(o["rule"], [0, 0])
        r[0] += 1
        r[1] += 1 if o["ok"] else 0
    wall = time.time() - run.t0
    level = getattr(mod, "LEVEL", "other")
    cov = {
        "explanation": run.explanation or getattr(mod, "EXPLANATION", ""),
        "evaluations": total,
        "distinct_nontrivial": distinct,
        "rule": "one evaluation = one structural obligation instance (rule id x anchor construct x feature set) decided on the exported MIR/type facts of /repo; distinct = distinct (rule, anchor) pairs with a real anchor (call site, exit, suspension point, ADT, impl item)",
        "obligations": total,
        "discharged": okc,
        "checker_cmd": "./check %s --tier %s" % (prop, run.tier),
        "feature_sets": sorted(run.facts.keys()),
        "tree_hash": run.tree,
        "bodies_analysed": run.stats["bodies"],
        "blocks_analysed": run.stats["blocks"],
        "call_sites_inspected": run.stats["call_sites"],
        "per_rule": {k: {"instances": v[0], "discharged": v[1]} for k, v in sorted(by_rule.items())},
        "samples": run.samples[:40] or [{"rule": o["rule"], "anchor": o["anchor"], "loc": o["loc"], "msg": o["msg"]} for o in run.obligations[:10]],
        "trusted_base": [("%s: %s" % (t, TRUSTED[t])) for t in getattr(mod, "TRUSTED", [])],
        "not_decided": getattr(mod, "NOT_DECIDED", []),
        "known_findings_matched": [k for k in viol if k in known_keys],
        "exhaustive": False,
    }
    cov.update(run.extra)
    ev = {
        "property_id": prop, "tier": run.tier, "seed": run.seed, "level": level, "coverage": cov,
        "assumptions": [("%s: %s" % (t, TRUSTED[t])) for t in getattr(mod, "TRUSTED", [])],
        "wall_s": round(wall, 2), "violations": n_new,
    }
    with open(os.path.join(OUT, "evidence", "%s.json" % prop), "w") as fh:
        json.dump(ev, fh, indent=1)
    for ln in lines:
        print(ln)
    print("%s %s: %d obligation instances over %d feature set(s), %d discharged, %d new violation(s), %d known; %.1fs"
          % (prop, run.tier, total, len(run.facts), okc, n_new, len([k for k in viol if k in known_keys]), wall))
    if verbose:
        for r, (n, k) in sorted(by_rule.items()):
            print("   %-8s %d/%d" % (r, k, n))
    if total == 0:
        print("VIOLATION property=%s replay=-" % prop)
        print("  no obligation was evaluated (vacuous run) - failing closed")
        return 1
    return 1 if n_new else 0


if __name__ == "__main__":
    sys.exit(main(sys.argv[1:]))
