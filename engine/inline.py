"""Canonicalisation of the fact base: crate-private helper functions are inlined into their callers.

Why: the rules are stated over the public API functions (tell, ask, stop, spawn, ...) and a few functions found by their
role (the lifecycle future that spawn hands to tokio::spawn, the dead-letter recorder, the cycle test, the wait-for
map accessor, the blocking primitives behind blocking_tell / blocking_ask). How a maintainer splits the code of those
functions into private helpers - extracting a `make_envelope`, a `deliver(..).await`, a `register_ask_edge`, inlining
`ActorRef::new` - does not change behaviour and must not change a verdict. So before any rule runs, every call to a
crate-local function that is not visible outside the crate, is not a trait method and has no role is replaced by a
copy of the callee's MIR (locals and blocks renumbered, arguments assigned, `return` wired to the call's target):

* ordinary functions: at the call terminator;
* `async fn` helpers: at the `Future::poll` call of the `.await` on the helper's future. The helper's coroutine body is
  spliced in: its upvars become fresh locals initialised from the arguments of the creating call, its `yield`s become
  yields of the caller (resuming inside the copy), its `return` continues at the Ready arm of the caller's poll match.
  The caller's own poll loop for that await becomes unreachable and is blanked.

Closures / async blocks nested in an inlined helper are copied per inlining instance and re-rooted to the caller, so
that "the closure's root function" is the public API function again. Helper bodies without remaining references are
removed from the fact base. A helper that cannot be inlined (recursive, unusual shape) is left alone: the rules
then fail closed on it, never silently pass.

The transformation is purely structural (no evaluation), bounded (depth 4) and is applied identically to every tree;
`RSAV_NO_INLINE=1` disables it for debugging."""
import copy
import json

POLL = "core::future::future::Future::poll"
MAX_DEPTH = 4


# ---------------------------------------------------------------- generic remapping of MIR JSON

def r_place(p, lm, up=None):
    l = p["l"]
    proj = p["p"]
    if up is not None and l == 1:
        # coroutine self: `_1.i....` -> upvar local
        if proj and isinstance(proj[0], int) and proj[0] in up:
            return {"l": up[proj[0]], "p": [r_proj(e, lm) for e in proj[1:]]}
        if len(proj) >= 2 and proj[0] == "*" and isinstance(proj[1], int) and proj[1] in up:
            return {"l": up[proj[1]], "p": [r_proj(e, lm) for e in proj[2:]]}
    return {"l": lm(l), "p": [r_proj(e, lm) for e in proj]}


def r_proj(e, lm):
    if isinstance(e, dict) and "index" in e:
        return {"index": lm(e["index"])}
    return e


def r_operand(o, lm, up):
    if "copy" in o:
        return {"copy": r_place(o["copy"], lm, up)}
    if "move" in o:
        return {"move": r_place(o["move"], lm, up)}
    return o


def r_rvalue(rv, lm, up, dmap):
    out = dict(rv)
    for k in ("use", "cast", "a", "b"):
        if k in rv and isinstance(rv[k], dict):
            out[k] = r_operand(rv[k], lm, up)
    for k in ("ref", "rawptr"):
        if k in rv:
            out[k] = r_place(rv[k], lm, up)
    if "discr" in rv and isinstance(rv["discr"], dict) and "l" in rv["discr"]:
        out["discr"] = r_place(rv["discr"], lm, up)
    if "ops" in rv:
        out["ops"] = [r_operand(o, lm, up) for o in rv["ops"]]
    if rv.get("agg") in ("closure", "coroutine", "coroutine_closure") and rv.get("def") in dmap:
        out["def"] = dmap[rv["def"]]
    return out


def r_stmt(st, lm, up, dmap):
    out = dict(st)
    if st["k"] == "assign":
        out["place"] = r_place(st["place"], lm, up)
        out["rv"] = r_rvalue(st["rv"], lm, up, dmap)
    elif st["k"] == "setdiscr":
        out["place"] = r_place(st["place"], lm, up)
    elif st["k"] in ("dead", "live"):
        out["l"] = lm(st["l"])
    return out


def r_unwind(u, bm):
    return bm(u) if isinstance(u, int) else u


def r_term(t, lm, bm, up, dmap):
    out = dict(t)
    k = t["k"]
    for key in ("target", "otherwise", "resume", "imaginary"):
        if key in t and isinstance(t[key], int):
            out[key] = bm(t[key])
    if "drop" in t and k == "yield" and isinstance(t["drop"], int):
        out["drop"] = bm(t["drop"])
    if "unwind" in t:
        out["unwind"] = r_unwind(t["unwind"], bm)
    if k == "switch":
        out["discr"] = r_operand(t["discr"], lm, up)
        out["arms"] = [[v, bm(b)] for v, b in t["arms"]]
    elif k == "drop":
        out["place"] = r_place(t["place"], lm, up)
    elif k == "call":
        out["args"] = [r_operand(a, lm, up) for a in t["args"]]
        out["dest"] = r_place(t["dest"], lm, up)
        if "fnop" in t:
            out["fnop"] = r_operand(t["fnop"], lm, up)
        fn = t.get("fn")
        if fn and fn.get("resolved") and fn["resolved"].get("def") in dmap:
            fn = dict(fn)
            fn["resolved"] = dict(fn["resolved"], **{"def": dmap[fn["resolved"]["def"]]})
            out["fn"] = fn
    elif k == "assert":
        out["cond"] = r_operand(t["cond"], lm, up)
    elif k == "yield":
        out["value"] = r_operand(t["value"], lm, up)
        out["resume_arg"] = r_place(t["resume_arg"], lm, up)
    return out


# ---------------------------------------------------------------- the inliner

class Inliner:
    def __init__(self, d, keep):
        self.d = d
        self.keep = set(keep)
        self.raw = {}                       # def -> raw body (first body of that def)
        for b in d["bodies"]:
            self.raw.setdefault(b["def"], b)
        self.fns = {fn["def"]: fn for fn in d["fns"]}
        self.children = {}                  # parent def -> [closure/coroutine defs]
        for b in d["bodies"]:
            if b.get("parent"):
                self.children.setdefault(b["parent"], []).append(b["def"])
        self.counter = 0
        self.spliced = set()
        self.closure_inlined = set()
        self.log = []
        self.cand = self._candidates()

    def _candidates(self):
        out = set()
        for dname, fn in self.fns.items():
            if not fn.get("has_body") or dname in self.keep or dname not in self.raw:
                continue
            if fn.get("impl_trait") == "std::convert::From" and fn.get("name") == "from" and self._private_adt_input(fn) \
                    and "::tests::" not in dname:
                out.add(dname)       # `impl From<PrivateEnum> for Error`: a constructor helper in disguise
                continue
            if fn.get("vis") == "Public":
                continue
            if fn.get("impl_trait"):
                # methods of a *private* trait of this crate that is never used as a trait object (an extension trait with a
                # blanket impl, `x.or_timed_out(..)`) are helpers like any other: their calls are statically resolved
                tr_ = fn["impl_trait"]
                if tr_ == "std::convert::From" and fn.get("name") == "from" and self._private_adt_input(fn):
                    out.add(dname)       # `impl From<PrivateEnum> for Error`: a constructor helper in disguise
                    continue
                if tr_ not in {t.get("def") for t in self.d.get("traits", [])}:
                    continue
                if any(isinstance(t, dict) and t.get("k") == "dyn" and tr_.split("::")[-1] in (t.get("s") or "") for t in self.d["types"]):
                    continue
            if "::tests::" in dname or dname.startswith("tests::"):
                continue
            out.add(dname)
        # drop (mutually) recursive ones
        graph = {c: self._callees_of_family(c) & out for c in out}
        changed = True
        while changed:
            changed = False
            for c in list(out):
                seen, work = set(), list(graph.get(c, ()))
                while work:
                    x = work.pop()
                    if x == c:
                        out.discard(c)
                        changed = True
                        break
                    if x not in seen:
                        seen.add(x)
                        work.extend(graph.get(x, ()))
        return out

    def _private_adt_input(self, fn):
        """Is the (single) argument a crate ADT that occurs in no public function signature (a private type)?"""
        if len(fn.get("inputs") or []) != 1:
            return False
        types = self.d["types"]

        def adts_in(tid, seen):
            t = types[tid] if isinstance(tid, int) and tid < len(types) else None
            if not isinstance(t, dict) or tid in seen:
                return set()
            seen.add(tid)
            out = {t["def"]} if t.get("k") == "adt" and t.get("def") else set()
            for a in t.get("args") or []:
                out |= adts_in(a, seen)
            return out
        t0 = types[fn["inputs"][0]]
        while isinstance(t0, dict) and t0.get("k") in ("ref", "refmut") and t0.get("args"):
            t0 = types[t0["args"][0]]
        crate_adts = {a["def"] for a in self.d.get("adts", [])}
        if not isinstance(t0, dict) or t0.get("k") != "adt" or t0.get("def") not in crate_adts:
            return False
        public = set()
        for d2, f2 in self.fns.items():
            if f2.get("vis") == "Public" and not (f2.get("impl_trait") == "std::convert::From"):
                for tid in list(f2.get("inputs") or []) + [f2.get("output")]:
                    public |= adts_in(tid, set())
        # fields of public ADTs are not tracked: a type that appears in a public signature counts as public, nothing else
        return t0["def"] not in public

    def _family(self, dname):
        out, work = [], [dname]
        while work:
            x = work.pop()
            out.append(x)
            work.extend(self.children.get(x, []))
        return out

    def _callees_of_family(self, dname):
        out = set()
        for m in self._family(dname):
            b = self.raw.get(m)
            if not b:
                continue
            for blk in b["blocks"]:
                t = blk["term"]
                if t["k"] == "call" and t.get("fn"):
                    out.add(t["fn"]["def"])
        return out

    # -------- generic parameters of the callee -> type arguments of the call
    def _mapping(self, callee_def, targs):
        names = (self.fns.get(callee_def) or {}).get("generics") or []
        if not targs or len(names) != len(targs):
            return {}
        types = self.d["types"]
        m = {}
        for n, t in zip(names, targs):
            if not (types[t]["k"] == "param" and types[t]["s"] == n):
                m[n] = t
        return m

    def _subst_ty(self, tid, m, memo):
        if not m or not isinstance(tid, int):
            return tid
        if tid in memo:
            return memo[tid]
        types = self.d["types"]
        t = types[tid]
        if t["k"] == "param":
            r = m.get(t["s"], tid)
            memo[tid] = r
            return r
        memo[tid] = tid          # cycle guard
        args = [self._subst_ty(a, m, memo) for a in t.get("args", [])]
        hid = self._subst_ty(t["hidden"], m, memo) if t.get("hidden") is not None else None
        if args == list(t.get("args", [])) and hid == t.get("hidden"):
            return tid
        import re
        sname = t["s"]
        for n, tgt in m.items():
            sname = re.sub(r"(?<![A-Za-z0-9_])%s(?![A-Za-z0-9_])" % re.escape(n), types[tgt]["s"].replace("\\", "\\\\"), sname)
        nt = dict(t)
        nt["s"] = sname
        if "args" in t:
            nt["args"] = args
        if hid is not None:
            nt["hidden"] = hid
        types.append(nt)
        memo[tid] = len(types) - 1
        return memo[tid]

    def _subst_in(self, x, m, memo):
        """Substitutes type ids in a copied MIR JSON fragment (in place)."""
        if not m:
            return
        if isinstance(x, dict):
            for k, v in list(x.items()):
                if k in ("ty", "discr_ty", "impl_self") and isinstance(v, int):
                    x[k] = self._subst_ty(v, m, memo)
                elif k == "targs" and isinstance(v, list):
                    x[k] = [self._subst_ty(a, m, memo) for a in v]
                elif k in ("span", "fn_span", "l", "vidx"):
                    continue
                else:
                    self._subst_in(v, m, memo)
        elif isinstance(x, list):
            for v in x:
                self._subst_in(v, m, memo)

    # -------- helpers on a raw body
    @staticmethod
    def _defs_of(body, local):
        """All definitions of a local: ('assign', rv) / ('call', term)."""
        out = []
        for blk in body["blocks"]:
            for st in blk["stmts"]:
                if st["k"] == "assign" and st["place"]["l"] == local and not st["place"]["p"]:
                    out.append(("assign", st["rv"], blk))
            t = blk["term"]
            if t["k"] == "call" and t["dest"]["l"] == local and not t["dest"]["p"]:
                out.append(("call", t, blk))
        return out

    def _chase_future(self, body, op, depth=0):
        """Follows a pinned-future operand back to the call that created the future. Returns the creating block or None."""
        if depth > 12 or not isinstance(op, dict):
            return None
        pl = op.get("move") or op.get("copy")
        if pl is None:
            return None
        defs = self._defs_of(body, pl["l"])
        if len(defs) != 1:
            return None
        kind, x, blk = defs[0]
        if kind == "assign":
            rv = x
            if rv.get("agg") == "coroutine":
                return ("agg", rv, blk)
            if "use" in rv:
                return self._chase_future(body, rv["use"], depth + 1)
            if "ref" in rv:
                return self._chase_future(body, {"copy": {"l": rv["ref"]["l"], "p": []}}, depth + 1)
            return None
        fn = x.get("fn") or {}
        name = fn.get("name")
        if name in ("new_unchecked", "into_future") and x["args"]:
            return self._chase_future(body, x["args"][0], depth + 1)
        return blk

    def _copy_nested(self, callee_def, caller, dmap, tmap=None):
        """Per-instance copies of the closures / coroutines nested in the callee (re-rooted to the caller)."""
        new_bodies = []
        fam = [m for m in self._family(callee_def) if m != callee_def]
        for m in fam:
            self.counter += 1
            dmap[m] = "%s@%d" % (m, self.counter)
        for m in fam:
            src = self.raw.get(m)
            if src is None:
                continue
            nb = copy.deepcopy(src)
            nb["def"] = dmap[m]
            nb["root"] = caller.get("root") or caller["def"]
            par = src.get("parent")
            nb["parent"] = dmap.get(par, caller["def"]) if par != callee_def else caller["def"]
            nb["inlined_from"] = m
            # nested-in-nested aggregates refer to the copies too
            ident = lambda x: x
            for blk in nb["blocks"]:
                blk["stmts"] = [r_stmt(st, ident, None, dmap) for st in blk["stmts"]]
                blk["term"] = r_term(blk["term"], ident, ident, None, dmap)
            if tmap:
                memo = {}
                for ld in nb["locals"]:
                    ld["ty"] = self._subst_ty(ld["ty"], tmap, memo)
                for blk in nb["blocks"]:
                    self._subst_in(blk["stmts"], tmap, memo)
                    self._subst_in(blk["term"], tmap, memo)
                if nb.get("layout"):
                    for sv in nb["layout"]["saved"]:
                        sv["ty"] = self._subst_ty(sv["ty"], tmap, memo)
                nb["tmap"] = dict(tmap)
            new_bodies.append(nb)
            self.raw[nb["def"]] = nb
            self.children.setdefault(nb["parent"], []).append(nb["def"])
        return new_bodies

    def _splice(self, caller, callee, up, ctx_local, tmap=None):
        """Appends a renumbered copy of callee's locals/blocks to caller. Returns (local map fn, block map fn, dmap, new bodies)."""
        lbase = len(caller["locals"])
        bbase = len(caller["blocks"])

        def lm(l):
            if up is not None and l == 2 and ctx_local is not None:
                return ctx_local
            return lbase + l

        def bm(b):
            return bbase + b
        memo = {}
        for i, ld in enumerate(callee["locals"]):
            nd = dict(ld)
            nd["inl"] = callee["def"]
            nd["ty"] = self._subst_ty(nd["ty"], tmap, memo)
            caller["locals"].append(nd)
        dmap = {}
        new_bodies = self._copy_nested(callee["def"], caller, dmap, tmap)
        for blk in callee["blocks"]:
            nb_ = {"cleanup": blk["cleanup"], "stmts": [r_stmt(st, lm, up, dmap) for st in blk["stmts"]],
                   "term": r_term(blk["term"], lm, bm, up, dmap)}
            if tmap:
                nb_ = copy.deepcopy(nb_)
                self._subst_in(nb_["stmts"], tmap, memo)
                self._subst_in(nb_["term"], tmap, memo)
            caller["blocks"].append(nb_)
        if callee.get("selects"):
            caller.setdefault("selects", [])
            caller["selects"] = list(caller["selects"]) + list(callee["selects"])
        return lm, bm, lbase, bbase, new_bodies

    def _inline_sync(self, caller, k, callee, targs=None):
        blk = caller["blocks"][k]
        t = blk["term"]
        n0 = len(callee["blocks"])
        tmap = self._mapping(callee["def"], targs if targs is not None else (t.get("fn") or {}).get("targs"))
        lm, bm, lbase, bbase, newb = self._splice(caller, callee, None, None, tmap)
        span = t["span"]
        for i, a in enumerate(t["args"]):
            blk["stmts"].append({"k": "assign", "place": {"l": lbase + 1 + i, "p": []}, "rv": {"use": a}, "span": span})
        for j in range(bbase, bbase + n0):
            ct = caller["blocks"][j]["term"]
            if ct["k"] == "return":
                caller["blocks"][j]["stmts"].append({"k": "assign", "place": t["dest"], "rv": {"use": {"move": {"l": lbase, "p": []}}}, "span": ct["span"]})
                caller["blocks"][j]["term"] = {"k": "goto", "target": t["target"], "span": ct["span"]} if t.get("target") is not None else {"k": "unreachable", "span": ct["span"]}
            elif ct["k"] == "resume" and isinstance(t.get("unwind"), int):
                caller["blocks"][j]["term"] = {"k": "goto", "target": t["unwind"], "span": ct["span"]}
        blk["term"] = {"k": "goto", "target": bbase, "span": span, "inlined": callee["def"]}
        return newb

    def _inline_closure_call(self, caller, k):
        """`FnOnce::call_once(closure_value, (a, b, c))` where the closure type is (after substituting the generic parameters
        of a spliced-in helper) a closure of this crate taken by value: the closure body is spliced in like a helper -
        parameter 1 is the closure value, the other parameters are the fields of the argument tuple. This is what makes a
        private helper that is generic over a closure (`on_helper_thread(msg, |rt, actor, msg| rt.block_on(..))`)
        transparent. Returns the new nested bodies, or None if the call is not of that form."""
        t = caller["blocks"][k]["term"]
        fn = t.get("fn") or {}
        if not (fn.get("def") or "").endswith("FnOnce::call_once") or len(t["args"]) != 2 or not fn.get("targs"):
            return None
        cty = self.d["types"][fn["targs"][0]]
        if isinstance(cty, dict) and cty.get("k") == "fndef" and cty.get("def") in self.fns:
            # a function item handed to a generic helper (`self.with_metrics(MetricsCollector::message_count)`): the
            # call through FnOnce is a direct call of that function on the fields of the argument tuple
            fd = self.fns[cty["def"]]
            tup = t["args"][1].get("move") or t["args"][1].get("copy")
            if tup is None or tup["p"]:
                return None
            t["fn"] = {"def": cty["def"], "targs": list(cty.get("args") or []), "krate": self.d.get("crate"), "path": cty["def"], "name": fd.get("name")}
            t["args"] = [{"move": {"l": tup["l"], "p": [i]}} for i in range(len(fd.get("inputs") or []))]
            t["via_fn_item"] = True
            return []
        if not isinstance(cty, dict) or cty.get("k") != "closure" or cty.get("def") not in self.raw:
            return None
        callee = self.raw[cty["def"]]
        if callee.get("def_kind") != "Closure" or callee.get("layout") or callee.get("coroutine") or callee["def"] == caller["def"]:
            return None
        env_ty = self.d["types"][callee["locals"][1]["ty"]] if len(callee["locals"]) > 1 else None
        by_ref = None
        if isinstance(env_ty, dict) and env_ty.get("k") == "ref":
            # a closure that only borrows its environment (Fn / FnMut), called once by value through the FnOnce shim: the body
            # takes `&closure` / `&mut closure`
            by_ref = "mut" if (env_ty.get("s") or "").startswith("&mut") else "shared"
            src0 = t["args"][0].get("move") or t["args"][0].get("copy")
            if src0 is None or src0["p"]:
                return None
        elif not isinstance(env_ty, dict) or env_ty.get("k") != "closure":
            return None
        tup = t["args"][1].get("move") or t["args"][1].get("copy")
        if tup is None or tup["p"]:
            return None
        blk = caller["blocks"][k]
        n0 = len(callee["blocks"])
        lm, bm, lbase, bbase, newb = self._splice(caller, callee, None, None, None)
        span = t["span"]
        if by_ref:
            blk["stmts"].append({"k": "assign", "place": {"l": lbase + 1, "p": []}, "rv": {"ref": {"l": src0["l"], "p": []}, "mut": by_ref == "mut", "fake": False}, "span": span})
        else:
            blk["stmts"].append({"k": "assign", "place": {"l": lbase + 1, "p": []}, "rv": {"use": t["args"][0]}, "span": span})
        for i in range(callee.get("arg_count", 1) - 1):
            blk["stmts"].append({"k": "assign", "place": {"l": lbase + 2 + i, "p": []}, "rv": {"use": {"move": {"l": tup["l"], "p": [i]}}}, "span": span})
        for j in range(bbase, bbase + n0):
            ct = caller["blocks"][j]["term"]
            if ct["k"] == "return":
                caller["blocks"][j]["stmts"].append({"k": "assign", "place": t["dest"], "rv": {"use": {"move": {"l": lbase, "p": []}}}, "span": ct["span"]})
                caller["blocks"][j]["term"] = {"k": "goto", "target": t["target"], "span": ct["span"]} if t.get("target") is not None else {"k": "unreachable", "span": ct["span"]}
            elif ct["k"] == "resume" and isinstance(t.get("unwind"), int):
                caller["blocks"][j]["term"] = {"k": "goto", "target": t["unwind"], "span": ct["span"]}
        blk["term"] = {"k": "goto", "target": bbase, "span": span, "inlined": callee["def"]}
        self.closure_inlined.add(callee["def"])
        return newb

    OPT, RES = "std::option::Option", "std::result::Result"
    # callee -> {variant index of the receiver: action}; actions: ("mk", adt, variant, vidx, with_payload) builds a value,
    # ("call", arg index of the closure, wrap or None, with_payload) calls the closure, ("arg", index) takes an (already evaluated) argument
    COMBINATORS = {
        "std::option::Option::<T>::map": (OPT, {0: ("mk", OPT, "None", 0, False), 1: ("call", 1, (OPT, "Some", 1), True)}),
        "std::option::Option::<T>::and_then": (OPT, {0: ("mk", OPT, "None", 0, False), 1: ("call", 1, None, True)}),
        "std::option::Option::<T>::map_or": (OPT, {0: ("arg", 1), 1: ("call", 2, None, True)}),
        "std::option::Option::<T>::map_or_else": (OPT, {0: ("call", 1, None, False), 1: ("call", 2, None, True)}),
        "std::result::Result::<T, E>::map": (RES, {0: ("call", 1, (RES, "Ok", 0), True), 1: ("mk", RES, "Err", 1, True)}),
        "std::result::Result::<T, E>::and_then": (RES, {0: ("call", 1, None, True), 1: ("mk", RES, "Err", 1, True)}),
        "std::result::Result::<T, E>::map_or": (RES, {0: ("call", 2, None, True), 1: ("arg", 1)}),
        "std::result::Result::<T, E>::map_or_else": (RES, {0: ("call", 2, None, True), 1: ("call", 1, None, True)}),
        "std::result::Result::<T, E>::map_err": (RES, {0: ("mk", RES, "Ok", 0, True), 1: ("call", 1, (RES, "Err", 1), True)}),
        "std::result::Result::<T, E>::ok": (RES, {0: ("mk", OPT, "Some", 1, True), 1: ("mk", OPT, "None", 0, False)}),
        "std::result::Result::<T, E>::err": (RES, {0: ("mk", OPT, "None", 0, False), 1: ("mk", OPT, "Some", 1, True)}),
    }
    VNAMES = {OPT: ["None", "Some"], RES: ["Ok", "Err"]}

    def _effectful_closure(self, cdef):
        """Does the closure (or a closure nested in it) call into this crate / tokio / std (not just alloc / core)?"""
        for m in self._family(cdef):
            b = self.raw.get(m)
            for blk in (b or {}).get("blocks", []):
                t = blk["term"]
                if t["k"] == "call" and t.get("fn") and (t["fn"].get("krate") in (self.d.get("crate"), "tokio", "std", "tracing", "log") or t["fn"]["def"] in self.fns
                                                         or t["fn"].get("name") == "downcast"):        # the typed view of a received reply
                    return True
        return False

    def _closure_of(self, body, op):
        """(closure def, place) if the operand is a crate closure value held in a plain local."""
        pl = op.get("move") or op.get("copy")
        if pl is None or pl["p"]:
            return None
        cty = self.d["types"][body["locals"][pl["l"]]["ty"]]
        if isinstance(cty, dict) and cty.get("k") == "closure" and cty.get("def") in self.raw:
            return cty["def"], pl
        return None

    def _lower_combinator(self, body, k):
        """`opt.map(|x| ..)`, `.and_then(..)`, `.map_or(d, ..)`, `.map_or_else(.., ..)`, `res.map(..)`, `.map_err(..)`, `.ok()`,
        `.err()` ... rewritten into the `match` they abbreviate: a switch on the receiver's discriminant, per variant either
        a value built from the payload, an argument that was evaluated anyway, or a call of the closure on the payload
        (which is then spliced in like any by-value closure call). Left alone: combinators over closures that are not
        closures of this crate; `map` / `and_then` over a closure that only reshapes data (`.map(|r| Box::new(r))`);
        `map_err` whose closure builds the crate's Error (the error-context rules of the delivery functions are stated
        over that form); `ok()` / `err()` unless their result only feeds another lowered combinator."""
        blk = body["blocks"][k]
        t = blk["term"]
        fn = t.get("fn") or {}
        spec = self.COMBINATORS.get(fn.get("def"))
        if spec is None or not t["args"] or t.get("target") is None:
            return False
        src_adt, actions = spec
        src = t["args"][0].get("move") or t["args"][0].get("copy")
        if src is None or src["p"]:
            return False
        types = self.d["types"]
        name = fn.get("name")
        closures = {}
        for act in actions.values():
            if act[0] == "call":
                c = self._closure_of(body, t["args"][act[1]]) if act[1] < len(t["args"]) else None
                if c is None:
                    return False
                closures[act[1]] = c
        if name in ("map", "and_then") and not any(self._effectful_closure(c[0]) for c in closures.values()):
            return False
        if name == "map_err":
            cdef = closures[1][0]
            rty = types[self.raw[cdef]["locals"][0]["ty"]]
            if isinstance(rty, dict) and (rty.get("def") == "error::Error" or (rty.get("s") or "").endswith("error::Error")):
                return False
        if name in ("ok", "err"):
            # only as the receiver of another combinator that is lowered
            d = t["dest"]
            if d["p"]:
                return False
            uses = 0
            feeds = False
            for b2 in body["blocks"]:
                for st in b2["stmts"]:
                    if ('"l": %d,' % d["l"]) in json.dumps(st.get("rv", {})) or ('"l": %d}' % d["l"]) in json.dumps(st.get("rv", {})):
                        uses += 1
                t2 = b2["term"]
                if t2 is t:
                    continue
                if t2["k"] == "call":
                    for ai, a in enumerate(t2["args"]):
                        pl = a.get("move") or a.get("copy")
                        if pl and pl["l"] == d["l"]:
                            uses += 1
                            if ai == 0 and not pl["p"] and (t2.get("fn") or {}).get("def") in self.COMBINATORS and (t2.get("fn") or {}).get("name") not in ("ok", "err"):
                                feeds = True
                elif t2["k"] == "switch":
                    pl = t2["discr"].get("move") or t2["discr"].get("copy")
                    if pl and pl["l"] == d["l"]:
                        uses += 1
            if not (feeds and uses == 1):
                return False
        span = t["span"]
        isize = next((i for i, x in enumerate(types) if isinstance(x, dict) and x.get("s") == "isize"), None)
        if isize is None:
            return False
        src_ty = types[body["locals"][src["l"]]["ty"]]
        if not isinstance(src_ty, dict) or not src_ty.get("args"):
            return False
        pay_tys = {0: src_ty["args"][0], 1: src_ty["args"][1] if len(src_ty["args"]) > 1 else src_ty["args"][0]} if src_adt == self.RES else {1: src_ty["args"][0]}

        def new_local(ty):
            body["locals"].append({"ty": ty, "mut": True, "span": span, "inl": "combinator"})
            return len(body["locals"]) - 1
        d_ = new_local(isize)
        blk["stmts"].append({"k": "assign", "place": {"l": d_, "p": []}, "rv": {"discr": {"l": src["l"], "p": []}, "ty": body["locals"][src["l"]]["ty"]}, "span": span})
        B = len(body["blocks"])
        arm_blocks = {}
        to_inline = []
        new_blocks = []

        def add_block(b):
            new_blocks.append(b)
            return B + len(new_blocks) - 1
        for vidx in (0, 1):
            act = actions[vidx]
            vname = self.VNAMES[src_adt][vidx]
            has_payload = not (src_adt == self.OPT and vidx == 0)
            stmts = []
            pay = None
            if has_payload and ((act[0] == "mk" and act[4]) or (act[0] == "call" and act[3])):
                pay = new_local(pay_tys[vidx])
                stmts.append({"k": "assign", "place": {"l": pay, "p": []}, "rv": {"use": {"move": {"l": src["l"], "p": [{"v": vidx, "name": vname}, 0]}}}, "span": span})
            if act[0] == "mk":
                ops = [{"move": {"l": pay, "p": []}}] if (act[4] and pay is not None) else []
                stmts.append({"k": "assign", "place": t["dest"], "rv": {"agg": "adt", "adt": act[1], "variant": act[2], "vidx": act[3], "fields": ["0"] if ops else [], "targs": [], "ops": ops}, "span": span})
                arm_blocks[vidx] = add_block({"cleanup": False, "stmts": stmts, "term": {"k": "goto", "target": t["target"], "span": span}})
            elif act[0] == "arg":
                stmts.append({"k": "assign", "place": t["dest"], "rv": {"use": t["args"][act[1]]}, "span": span})
                arm_blocks[vidx] = add_block({"cleanup": False, "stmts": stmts, "term": {"k": "goto", "target": t["target"], "span": span}})
            else:
                cdef, cpl = closures[act[1]]
                callee = self.raw[cdef]
                nargs = callee.get("arg_count", 1) - 1
                if (nargs == 1) != (pay is not None) and not (nargs == 0 and pay is None):
                    return False
                tys = [pay_tys[vidx]] if pay is not None else []
                types.append({"s": "(%s)" % ",".join(types[x].get("s", "?") for x in tys), "k": "tuple", "args": tys})
                tup = new_local(len(types) - 1)
                res = new_local(callee["locals"][0]["ty"])
                stmts.append({"k": "assign", "place": {"l": tup, "p": []}, "rv": {"agg": "tuple", "ops": [{"move": {"l": pay, "p": []}}] if pay is not None else []}, "span": span})
                call_fn = {"def": "std::ops::FnOnce::call_once", "targs": [body["locals"][cpl["l"]]["ty"], len(types) - 1], "krate": "core", "path": "core::ops::function::FnOnce::call_once", "name": "call_once"}
                after_i = B + len(new_blocks) + 1
                call_i = add_block({"cleanup": False, "stmts": stmts, "term": {"k": "call", "fn": call_fn, "args": [{"move": {"l": cpl["l"], "p": []}}, {"move": {"l": tup, "p": []}}],
                                    "dest": {"l": res, "p": []}, "target": after_i, "unwind": t.get("unwind"), "span": span, "fn_span": t.get("fn_span", span)}})
                wrap = act[2]
                out_rv = {"agg": "adt", "adt": wrap[0], "variant": wrap[1], "vidx": wrap[2], "fields": ["0"], "targs": [], "ops": [{"move": {"l": res, "p": []}}]} if wrap else {"use": {"move": {"l": res, "p": []}}}
                add_block({"cleanup": False, "stmts": [{"k": "assign", "place": t["dest"], "rv": out_rv, "span": span}], "term": {"k": "goto", "target": t["target"], "span": span}})
                arm_blocks[vidx] = call_i
                to_inline.append(call_i)
        body["blocks"].extend(new_blocks)
        blk["term"] = {"k": "switch", "discr": {"move": {"l": d_, "p": []}}, "discr_ty": isize, "arms": [["0", arm_blocks[0]]], "otherwise": arm_blocks[1], "span": span, "lowered": fn["def"]}
        self._lowered_new = []
        for ci in to_inline:
            nb = self._inline_closure_call(body, ci)
            if nb:
                self._lowered_new += nb
        return True

    def _coroutine_ctor(self, outer):
        """For `async fn` X: the aggregate `_0 = coroutine[X::{closure#0}](ops)` of its outer body -> (coroutine def, [param index per upvar])."""
        found = None
        for blk in outer["blocks"]:
            for st in blk["stmts"]:
                if st["k"] == "assign" and st["place"]["l"] == 0 and not st["place"]["p"] and st["rv"].get("agg") == "coroutine":
                    if found is not None:
                        return None
                    found = st["rv"]
        if found is None:
            return None
        params = []
        for o in found["ops"]:
            pl = o.get("move") or o.get("copy")
            if pl is None or pl["p"] or not (1 <= pl["l"] <= outer["arg_count"]):
                return None
            params.append(pl["l"] - 1)
        calls = [b for b in outer["blocks"] if b["term"]["k"] == "call" and not b["cleanup"]]
        if calls:
            return None            # the outer fn does more than build the future (e.g. an instrumented wrapper)
        return found["def"], params

    def _inline_async(self, caller, p, agg_rv, agg_blk, cor):
        """Splices coroutine body `cor` (created by the aggregate `agg_rv` in this body) at poll block p of `caller`."""
        pblk = caller["blocks"][p]
        pt = pblk["term"]
        span = pt["span"]
        # upvar locals, bound where the coroutine value was built (no coroutine object any more)
        up = {}
        uv = cor.get("upvars") or []
        idx = None
        for j, st in enumerate(agg_blk["stmts"]):
            if st["k"] == "assign" and st["rv"] is agg_rv:
                idx = j
        if idx is None:
            return []
        aspan = agg_blk["stmts"][idx]["span"]
        binds = []
        for i, o in enumerate(agg_rv["ops"]):
            pl = o.get("move") or o.get("copy")
            ty = caller["locals"][pl["l"]]["ty"] if pl is not None and not pl["p"] else (caller["locals"][pl["l"]]["ty"] if pl is not None else 0)
            caller["locals"].append({"ty": ty, "name": uv[i].get("name") if i < len(uv) else None, "span": aspan, "inl": cor["def"]})
            up[i] = len(caller["locals"]) - 1
            binds.append({"k": "assign", "place": {"l": up[i], "p": []}, "rv": {"use": o}, "span": aspan})
        agg_blk["stmts"][idx:idx + 1] = binds
        # locate the caller's Ready arm and the drop target of its pending yield
        ready, pend_drop, lay_span = None, None, None
        nxt = caller["blocks"][pt["target"]] if pt.get("target") is not None else None
        if nxt is not None and nxt["term"]["k"] == "switch":
            arms = dict((str(v), b) for v, b in nxt["term"]["arms"])
            ready = arms.get("0")
            pend = arms.get("1", nxt["term"].get("otherwise"))
            seen = set()
            while pend is not None and pend not in seen and len(seen) < 12:
                seen.add(pend)
                tt = caller["blocks"][pend]["term"]
                if tt["k"] == "yield":
                    pend_drop = tt.get("drop")
                    lay_span = tt.get("layout_span", tt["span"])
                    break
                pend = tt.get("target") if tt["k"] in ("goto", "drop", "false_edge") else None
        # the compiler's layout of the helper's coroutine (what it keeps alive at each of its own suspension points) is
        # composed with the caller's layout at the await of the helper: at an inlined suspension point both are alive
        cl, kl = caller.get("layout"), cor.get("layout")
        if cl and kl:
            off = len(cl["saved"])
            base = [v for v in cl["variants"] if v["span"] == lay_span] if lay_span is not None else []
            base_fields = list(base[0]["fields"]) if len(base) == 1 else []
            caller["layout"] = {"saved": list(cl["saved"]) + list(kl["saved"]),
                                "variants": list(cl["variants"]) + [{"fields": [off + i for i in v["fields"]] + base_fields, "span": v["span"], "inl": cor["def"]} for v in kl["variants"]]}
        ctx_local = 2 if caller.get("coroutine_kind") else None
        n0 = len(cor["blocks"])
        lm, bm, lbase, bbase, newb = self._splice(caller, cor, up, ctx_local)
        for j in range(bbase, bbase + n0):
            b = caller["blocks"][j]
            tt = b["term"]
            if lay_span is not None and tt["k"] in ("yield", "call"):
                # the compiler's coroutine layout of the caller knows this suspension as the caller's own await of the helper
                tt["layout_span"] = lay_span
            if tt["k"] == "return":
                b["stmts"].append({"k": "assign", "place": pt["dest"], "span": tt["span"],
                                   "rv": {"agg": "adt", "adt": "std::task::Poll", "variant": "Ready", "vidx": 0, "fields": ["0"], "targs": [], "ops": [{"move": {"l": lbase, "p": []}}]}})
                tgt = ready if ready is not None else pt.get("target")
                b["term"] = {"k": "goto", "target": tgt, "span": tt["span"]} if tgt is not None else {"k": "unreachable", "span": tt["span"]}
            elif tt["k"] == "resume" and isinstance(pt.get("unwind"), int):
                b["term"] = {"k": "goto", "target": pt["unwind"], "span": tt["span"]}
            elif tt["k"] == "coroutine_drop" and pend_drop is not None:
                b["term"] = {"k": "goto", "target": pend_drop, "span": tt["span"]}
            elif tt["k"] == "drop" and tt["place"]["l"] == lbase + 1 and not tt["place"]["p"]:
                # drop of the coroutine object itself: its upvars are separate locals now
                b["term"] = {"k": "goto", "target": tt["target"], "span": tt["span"]}
        pblk["term"] = {"k": "goto", "target": bbase, "span": span, "inlined": cor["def"]}
        self.spliced.add(cor["def"])
        return newb

    def _blank_unreachable(self, body):
        n = len(body["blocks"])
        seen, work = {0}, [0]
        while work:
            x = work.pop()
            t = body["blocks"][x]["term"]
            succ = []
            for key in ("target", "otherwise", "resume", "drop"):        # not "imaginary": false edges are not control flow
                v = t.get(key)
                if isinstance(v, int) and not (key == "drop" and t["k"] != "yield"):
                    succ.append(v)
            if isinstance(t.get("unwind"), int):
                succ.append(t["unwind"])
            if t["k"] == "switch":
                succ += [b for _, b in t["arms"]]
            for s in succ:
                if 0 <= s < n and s not in seen:
                    seen.add(s)
                    work.append(s)
        for i, blk in enumerate(body["blocks"]):
            if i not in seen and (blk["stmts"] or blk["term"]["k"] != "unreachable"):
                blk["stmts"] = []
                blk["term"] = {"k": "unreachable", "span": blk["term"]["span"], "blanked": True}

    def _fold_const_switches(self, body):
        """After a helper has been spliced in with a constant enum argument (`helper(Kind::A, ..)` with `match kind {..}` in
        the helper), the match is decided: replace `switch discriminant(x)` by a goto to the arm of the variant x was built
        with. x must have exactly one whole-local definition chain ending in an aggregate, and never be written through a
        pointer, a projection, a call or a resume. (What rustc's own SimplifyConstCondition / jump threading does.)"""
        nvar = {a["def"]: len(a.get("variants") or []) for a in self.d.get("adts", [])}
        nvar.update({"std::option::Option": 2, "std::result::Result": 2})
        defs, tainted = {}, set(range(0, body.get("arg_count", 0) + 1))
        for blk in body["blocks"]:
            for st in blk["stmts"]:
                if st["k"] == "assign":
                    pl = st["place"]
                    if pl["p"]:
                        if not any(e == "*" for e in pl["p"]):
                            tainted.add(pl["l"])
                    else:
                        defs.setdefault(pl["l"], []).append(st["rv"])
                    rv = st["rv"]
                    if ("ref" in rv and rv.get("mut")) or "rawptr" in rv:
                        src = rv.get("ref") or rv.get("rawptr")
                        if not any(e == "*" for e in src["p"]):
                            tainted.add(src["l"])
            t = blk["term"]
            if t["k"] == "call" and not t["dest"]["p"]:
                tainted.add(t["dest"]["l"])
            if t["k"] == "yield" and not t["resume_arg"]["p"]:
                tainted.add(t["resume_arg"]["l"])

        def variant_of(l, depth=0):
            if l in tainted or len(defs.get(l, [])) != 1 or depth > 6:
                return None
            rv = defs[l][0]
            if rv.get("agg") == "adt" and rv.get("adt") in nvar and "vidx" in rv:
                return rv["vidx"], nvar[rv["adt"]]
            if "use" in rv:
                src = rv["use"].get("move") or rv["use"].get("copy")
                if src is not None and not src["p"]:
                    return variant_of(src["l"], depth + 1)
            return None
        folded = 0
        for blk in body["blocks"]:
            t = blk["term"]
            if t["k"] != "switch":
                continue
            dl = t["discr"].get("move") or t["discr"].get("copy")
            if dl is None or dl["p"] or dl["l"] in tainted or len(defs.get(dl["l"], [])) != 1:
                continue
            rv = defs[dl["l"]][0]
            if "discr" not in rv or not isinstance(rv["discr"], dict):
                continue
            subject = rv["discr"]["l"]
            if rv["discr"].get("p") == ["*"]:
                # `match *r` / `match r` with r = &x: the shared reference of a value built in this body
                target = None
                for _ in range(8):      # the reference itself may be handed on or reborrowed (`for_error(&error)`, `&*r`)
                    if subject in tainted or len(defs.get(subject, [])) != 1:
                        break
                    d0 = defs[subject][0]
                    if "use" in d0:
                        src = d0["use"].get("move") or d0["use"].get("copy")
                        if src is None or src["p"]:
                            break
                        subject = src["l"]
                    elif "ref" in d0 and not d0.get("mut") and d0["ref"]["p"] == ["*"]:
                        subject = d0["ref"]["l"]
                    elif "ref" in d0 and not d0.get("mut") and not d0["ref"]["p"]:
                        target = d0["ref"]["l"]
                        break
                    else:
                        break
                if target is None:
                    continue
                subject = target
            elif rv["discr"].get("p"):
                continue
            v = variant_of(subject)
            if v is None:
                continue
            vidx, n = v
            if any(int(a) >= n for a, _ in t["arms"]):
                continue        # explicit discriminant values: not the variant index
            tgt = t["otherwise"]
            for a, b2 in t["arms"]:
                if int(a) == vidx:
                    tgt = b2
            blk["term"] = {"k": "goto", "target": tgt, "span": t["span"], "folded": True}
            folded += 1
        return folded

    def _thread_known_variants(self, body, max_chain=16):
        """Jump threading for `x = Enum::V(..); ...straight line...; match x {..}`: when a helper that *returns* an enum
        (what woke the loop, why the loop ended) is spliced into the caller that matches on it, every construction site
        reaches the match through a chain of single-successor blocks. The chain is duplicated for that site and ends in a
        goto to the arm of V, so the arm's code is control-dependent on the construction site again - exactly the shape
        the code had before the enum was introduced. Only chains without calls and yields are duplicated (no call site
        or suspension point is ever copied); the values are untouched."""
        import copy
        blocks = body["blocks"]
        nvar = {a["def"]: len(a.get("variants") or []) for a in self.d.get("adts", [])}
        nvar.update({"std::option::Option": 2, "std::result::Result": 2})
        # locals written other than by whole-local assignments are left alone
        tainted = set(range(0, body.get("arg_count", 0) + 1))
        for blk in blocks:
            for st in blk["stmts"]:
                if st["k"] == "assign":
                    rv = st["rv"]
                    if st["place"]["p"] and not any(e == "*" for e in st["place"]["p"]):
                        tainted.add(st["place"]["l"])
                    if ("ref" in rv and rv.get("mut")) or "rawptr" in rv:
                        src = rv.get("ref") or rv.get("rawptr")
                        if not any(e == "*" for e in src["p"]):
                            tainted.add(src["l"])
        # (a definition by a call / resume on another path does not matter here: the chain from the construction site to
        # the match contains no call and no other assignment to the value)
        # switch blocks: J -> (X, index of the `d = discriminant(X)` statement)
        joins = {}
        for j, blk in enumerate(blocks):
            t = blk["term"]
            if t["k"] != "switch":
                continue
            dl = t["discr"].get("move") or t["discr"].get("copy")
            if dl is None or dl["p"]:
                continue
            for i, st in enumerate(blk["stmts"]):
                if st["k"] == "assign" and not st["place"]["p"] and st["place"]["l"] == dl["l"] and isinstance(st["rv"].get("discr"), dict) and not st["rv"]["discr"].get("p"):
                    x = st["rv"]["discr"]["l"]
                    if x not in tainted and all(not (s2["k"] == "assign" and not s2["place"]["p"] and s2["place"]["l"] in (x, dl["l"])) for s2 in blk["stmts"][i + 1:]):
                        joins[j] = x
        # ... and switches directly on a local that holds a constant on some paths (`r = true` in one arm of an inlined
        # `a || b`, `r = call()` in the other): J -> the local itself
        cjoins = {}
        for j, blk in enumerate(blocks):
            t = blk["term"]
            if t["k"] != "switch" or j in joins:
                continue
            dl = t["discr"].get("move") or t["discr"].get("copy")
            if dl is not None and not dl["p"] and dl["l"] not in tainted:
                cjoins[j] = dl["l"]
        if not joins and not cjoins:
            return 0

        def single_succ(t):
            if t["k"] in ("goto", "false_edge", "false_unwind", "drop"):
                return t.get("target")
            return None
        threaded = 0
        n0 = len(blocks)

        wrapped = {}

        def flow(stmts, alias):
            """Follows `y = move x` for x in alias - also through `w = Poll::Ready(move x)` ... `y = move (w as Ready).0`,
            which is how the value returned by a spliced-in async helper reaches the caller; False if a member is
            overwritten otherwise."""
            for s2 in stmts:
                if s2["k"] != "assign" or s2["place"]["p"]:
                    continue
                rv2 = s2["rv"]
                dst = s2["place"]["l"]
                src = (rv2["use"].get("move") or rv2["use"].get("copy")) if "use" in rv2 else None
                if src is not None and not src["p"] and src["l"] in alias:
                    alias.add(dst)
                elif src is not None and src["l"] in wrapped and len(src["p"]) == 2 and isinstance(src["p"][0], dict) and src["p"][0].get("name") == wrapped[src["l"]] and src["p"][1] == 0:
                    alias.add(dst)
                elif rv2.get("agg") == "adt" and len(rv2.get("ops", [])) == 1 and ((rv2["ops"][0].get("move") or rv2["ops"][0].get("copy") or {}).get("l") in alias) \
                        and not (rv2["ops"][0].get("move") or rv2["ops"][0].get("copy"))["p"]:
                    wrapped[dst] = rv2["variant"]
                elif dst in alias or dst in wrapped:
                    return False
            return True
        for a in range(n0):
            blk = blocks[a]
            sites = [(i, st) for i, st in enumerate(blk["stmts"]) if st["k"] == "assign" and not st["place"]["p"] and st["place"]["l"] not in tainted
                     and st["rv"].get("agg") == "adt" and st["rv"].get("adt") in nvar and nvar[st["rv"]["adt"]] > 1 and "vidx" in st["rv"]]
            csites = [(i, st) for i, st in enumerate(blk["stmts"]) if st["k"] == "assign" and not st["place"]["p"] and st["place"]["l"] not in tainted
                      and "use" in st["rv"] and isinstance(st["rv"]["use"].get("const"), dict) and str(st["rv"]["use"]["const"].get("int", "")).lstrip("-").isdigit()]
            if csites and not sites:
                # constant site
                i, st = csites[-1]
                cval = int(st["rv"]["use"]["const"]["int"])
                alias = {st["place"]["l"]}
                wrapped.clear()
                if not flow(blk["stmts"][i + 1:], alias):
                    continue
                chain, cur = [], single_succ(blk["term"])
                ok = cur is not None
                while ok and len(chain) <= max_chain:
                    if cur in cjoins and cjoins[cur] in alias:
                        break
                    b2 = blocks[cur]
                    nxt = single_succ(b2["term"])
                    if nxt is None or cur in chain or not flow(b2["stmts"], alias):
                        ok = False
                        break
                    chain.append(cur)
                    cur = nxt
                if not ok or len(chain) > max_chain or cur not in cjoins or cur == a or any(l in tainted for l in alias):
                    continue
                j = cur
                if not flow(blocks[j]["stmts"], alias) or cjoins[j] not in alias:
                    continue
                jt = blocks[j]["term"]
                tgt = jt["otherwise"]
                for v, b2 in jt["arms"]:
                    if int(v) == cval:
                        tgt = b2
                new_ids = {}
                for c in chain + [j]:
                    new_ids[c] = len(blocks)
                    nb = copy.deepcopy(blocks[c])
                    nb["threaded_from"] = c
                    blocks.append(nb)
                for c in chain:
                    nb = blocks[new_ids[c]]
                    nb["term"]["target"] = new_ids[single_succ(nb["term"])]
                blocks[new_ids[j]]["term"] = {"k": "goto", "target": tgt, "span": jt["span"], "folded": True}
                blk["term"]["target"] = new_ids[chain[0] if chain else j]
                threaded += 1
                continue
            if not sites:
                continue
            i, st = sites[-1]
            alias = {st["place"]["l"]}
            wrapped.clear()
            if not flow(blk["stmts"][i + 1:], alias):
                continue
            chain, cur = [], single_succ(blk["term"])
            ok = cur is not None
            while ok and len(chain) <= max_chain:
                if cur in joins and joins[cur] in alias:
                    break
                b2 = blocks[cur]
                nxt = single_succ(b2["term"])
                if nxt is None or cur in chain or not flow(b2["stmts"], alias):
                    ok = False
                    break
                chain.append(cur)
                cur = nxt
            if not ok or len(chain) > max_chain or cur not in joins or cur == a or any(l in tainted for l in alias):
                continue
            j = cur
            jt = blocks[j]["term"]
            vidx = st["rv"]["vidx"]
            if any(int(v) >= nvar[st["rv"]["adt"]] for v, _ in jt["arms"]):
                continue
            tgt = jt["otherwise"]
            for v, b2 in jt["arms"]:
                if int(v) == vidx:
                    tgt = b2
            # duplicate chain + the statements of J, ending in a goto to the arm
            new_ids = {}
            for c in chain + [j]:
                new_ids[c] = len(blocks)
                nb = copy.deepcopy(blocks[c])
                nb["threaded_from"] = c
                blocks.append(nb)
            for c in chain:
                nb = blocks[new_ids[c]]
                nxt = single_succ(nb["term"])
                nb["term"]["target"] = new_ids[nxt]
            blocks[new_ids[j]]["term"] = {"k": "goto", "target": tgt, "span": jt["span"], "folded": True}
            first = chain[0] if chain else j
            blk["term"]["target"] = new_ids[first]
            threaded += 1
        return threaded

    # -------- driver
    def run(self):
        bodies = self.d["bodies"]
        extra = []
        for depth in range(MAX_DEPTH):
            changed = False
            for body in list(bodies) + extra:
                i = 0
                touched = False
                while i < len(body["blocks"]):
                    t = body["blocks"][i]["term"]
                    if t["k"] == "call" and t.get("fn"):
                        fn = t["fn"]
                        cd = fn["def"]
                        # helper fn (for an `async fn` helper this puts `coroutine[helper::{closure#0}@k](args)` - i.e. the
                        # equivalent `async move {}` block - into the caller; the await is spliced below)
                        if cd in self.cand and cd != body["def"] and body.get("root") != cd and cd in self.raw \
                                and self.raw[cd].get("coroutine_kind") is None and len(t["args"]) == self.raw[cd]["arg_count"] \
                                and (not self.fns[cd].get("async") or self._coroutine_ctor(self.raw[cd]) is not None):
                            extra += self._inline_sync(body, i, self.raw[cd])
                            self.log.append((body["def"], cd, "async-ctor" if self.fns[cd].get("async") else "sync"))
                            touched = changed = True
                        # statically resolved call of a private extension-trait method
                        elif (fn.get("resolved") or {}).get("def") in self.cand and self.fns[fn["resolved"]["def"]].get("impl_trait") \
                                and fn["resolved"]["def"] in self.raw and fn["resolved"]["def"] != body["def"] and body.get("root") != fn["resolved"]["def"] \
                                and not self.fns[fn["resolved"]["def"]].get("async") and len(t["args"]) == self.raw[fn["resolved"]["def"]]["arg_count"]:
                            rd_ = fn["resolved"]["def"]
                            extra += self._inline_sync(body, i, self.raw[rd_], targs=fn["resolved"].get("targs"))
                            self.log.append((body["def"], rd_, "trait-method"))
                            touched = changed = True
                        # await of a future built in this body from an inlined async helper
                        elif fn.get("name") == "poll" and (fn.get("resolved") or {}).get("def") and t["args"]:
                            rd = fn["resolved"]["def"]
                            outer_def = self.raw.get(rd, {}).get("parent") if rd in self.raw else None
                            if outer_def in self.cand and self.fns.get(outer_def, {}).get("async"):
                                found = self._chase_future(body, t["args"][0])
                                if isinstance(found, tuple) and found[0] == "agg" and self.raw.get(found[1]["def"], {}).get("inlined_from") == rd:
                                    extra += self._inline_async(body, i, found[1], found[2], self.raw[found[1]["def"]])
                                    self.log.append((body["def"], outer_def, "async"))
                                    touched = changed = True
                    i += 1
                if touched:
                    for _ in range(6):      # a decided match can decide the next one (`for_error(&e)` then `if let Some(reason)`)
                        n_ = self._fold_const_switches(body)
                        self._blank_unreachable(body)
                        if not n_:
                            break
                    self._thread_known_variants(body)
                    self._blank_unreachable(body)
            if not changed:
                break
        bodies.extend(b for b in extra if b not in bodies)
        # combinators over effectful closures -> the match they abbreviate
        for body in list(bodies):
            i = 0
            touched = False
            more = []
            while i < len(body["blocks"]):
                t = body["blocks"][i]["term"]
                if t["k"] == "call" and t.get("fn") and t["fn"].get("def") in self.COMBINATORS and not body["blocks"][i].get("cleanup"):
                    self._lowered_new = []
                    if self._lower_combinator(body, i):
                        more += self._lowered_new
                        touched = True
                        self.log.append((body["def"], t["fn"]["def"], "combinator"))
                i += 1
            if touched:
                for _ in range(6):
                    n_ = self._fold_const_switches(body)
                    self._blank_unreachable(body)
                    if not n_:
                        break
                self._thread_known_variants(body)
                self._blank_unreachable(body)
            bodies.extend(b for b in more if b not in bodies)
        # closures handed to a spliced-in generic helper and called there
        for _ in range(3):
            more = []
            for body in list(bodies):
                i = 0
                touched = False
                while i < len(body["blocks"]):
                    t = body["blocks"][i]["term"]
                    if t["k"] == "call" and t.get("fn") and (t["fn"].get("def") or "").endswith("FnOnce::call_once"):
                        nb = self._inline_closure_call(body, i)
                        if nb is not None:
                            more += nb
                            touched = True
                            self.log.append((body["def"], "closure", "call_once"))
                    i += 1
                if touched:
                    for _ in range(6):
                        n_ = self._fold_const_switches(body)
                        self._blank_unreachable(body)
                        if not n_:
                            break
                    self._thread_known_variants(body)
                    self._blank_unreachable(body)
            bodies.extend(b for b in more if b not in bodies)
            if not more:
                break
        # remove helper families that are no longer referenced
        refs = set()
        for b in bodies:
            if b.get("promoted_of"):
                continue        # promoted constants are data: they neither keep a helper alive nor are they removed
            owner = b["def"]
            for blk in b["blocks"]:
                t = blk["term"]
                if t["k"] == "call" and t.get("fn"):
                    refs.add((owner, t["fn"]["def"]))
                    if t["fn"].get("resolved"):
                        refs.add((owner, t["fn"]["resolved"]["def"]))
                    elif t["fn"].get("trait"):
                        # a trait-method call that is not statically resolved (generic over Self, as in a provided method
                        # spliced into its caller): any impl of that method may be the target, none of them may be dropped
                        for dn, f2 in self.fns.items():
                            if f2.get("impl_trait") == t["fn"]["trait"] and f2.get("name") == t["fn"].get("name"):
                                refs.add((owner, dn))
                if t["k"] == "call":
                    for o in t["args"]:          # a function passed as a value: `.map(helper)`
                        if isinstance(o, dict) and "const" in o and "fn" in o["const"]:
                            refs.add((owner, o["const"]["fn"]["def"]))
                for st in blk["stmts"]:
                    if st["k"] == "assign":
                        rv = st["rv"]
                        if rv.get("agg") in ("closure", "coroutine", "coroutine_closure"):
                            refs.add((owner, rv["def"]))
                        for o in ([rv.get("use")] if isinstance(rv.get("use"), dict) else []) + list(rv.get("ops", [])):
                            if isinstance(o, dict) and "const" in o and "fn" in o["const"]:
                                refs.add((owner, o["const"]["fn"]["def"]))
        removed = set()
        fams = {c: set(self._family(c)) for c in self.cand}
        changed = True
        while changed:
            changed = False
            for c in sorted(self.cand):
                fam = fams[c]
                if fam <= removed:
                    continue
                if not any(tgt in fam and own not in fam and own not in removed for own, tgt in refs):
                    removed |= fam
                    changed = True
        allrefs = {tgt for own, tgt in refs}
        for b in bodies:
            if b["def"] in self.spliced and b["def"] not in allrefs:
                removed |= set(self._family(b["def"]))
        for c in self.closure_inlined:       # called (FnOnce: once) where it was spliced in; the value itself stays an aggregate
            removed |= set(self._family(c))
        self.d["bodies"] = [b for b in bodies if b["def"] not in removed]
        self.removed = removed
        return self.log

    def _ever_called(self, c):
        return any(x[1] == c for x in self.log)
