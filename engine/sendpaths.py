"""Shared inventory of the send paths (C01, C02, C03, C09, C10, C13, C17): envelope
constructions, mailbox channel operations, error constructions with the failure they are
conditioned on, dead-letter records, timeout wrappers, upvar -> parameter resolution."""
from cfg import callee
from prov import Tracer, strip_refs, strip_wrappers, fn_path, show, simplify
from rules.common import cfg_of, tracer_of, live_calls, fn_of, loc_of, is_tokio_mpsc_sender_method, chan_of

POLL = "core::future::future::Future::poll"
TRY_BRANCH = "core::ops::try_trait::Try::branch"
FROM_RESIDUAL = "core::ops::try_trait::FromResidual::from_residual"
INTO_FUTURE = "core::future::into_future::IntoFuture::into_future"


def subterms(t, _depth=0):
    if not isinstance(t, tuple) or _depth > 60:
        return
    yield t
    for x in t[1:]:
        if isinstance(x, tuple):
            if x and isinstance(x[0], str):
                yield from subterms(x, _depth + 1)
            else:
                for y in x:
                    if isinstance(y, tuple):
                        yield from subterms(y, _depth + 1)


def norm_try(tr, t, depth=0):
    """Tracer.norm plus `?` desugaring: Continue payload of Try::branch(X) -> ("try_ok", X),
    from_residual(Break payload of Try::branch(X)) -> ("try_err", X)."""
    if depth > 40 or not isinstance(t, tuple) or not t:
        return t
    t = tr.norm(t)
    k = t[0]
    if k == "field" and t[1] == 0 and t[2][0] == "downcast" and t[2][1] in ("Continue", "Break"):
        inner = t[2][2]
        if inner[0] == "call" and fn_path(tr.call_term(inner[1])) == TRY_BRANCH:
            x = norm_try(tr, tr.call_args(inner[1])[0], depth + 1)
            if t[2][1] == "Continue":
                y = _try_ok_of_built(x)
                if y is not None:
                    return y            # `?` applied to an Option / Result value built in this body: its payload
            return ("try_ok" if t[2][1] == "Continue" else "try_break", x)
    if k == "field":
        inner2 = norm_try(tr, t[2], depth + 1)
        if inner2 != t[2]:
            return simplify(("field", t[1], inner2))
    if k == "call" and fn_path(tr.call_term(t[1])) == FROM_RESIDUAL:
        a = norm_try(tr, tr.call_args(t[1])[0], depth + 1)
        if a[0] == "try_break":
            return ("try_err", a[1])
        return ("try_err?", a)
    if k == "phi":
        return ("phi", tuple(norm_try(tr, x, depth + 1) for x in t[1]))
    if k == "agg":
        return ("agg", t[1], tuple(norm_try(tr, x, depth + 1) for x in t[2]))
    if k in ("ref", "deref"):
        return simplify((k, norm_try(tr, t[1], depth + 1)))
    if k == "await":
        return ("await", norm_try(tr, t[1], depth + 1), t[2])
    return t


def _try_ok_of_built(x):
    """The Continue payload of `X?` when X is (a phi of) Some(v) / Ok(v) / None / Err(e) aggregates built locally."""
    from prov import INFEASIBLE, _phi
    x = strip_wrappers(x)
    if x[0] == "agg" and x[1][0] == "adt" and x[1][1] in ("std::option::Option", "std::result::Result"):
        if x[1][2] in ("Some", "Ok") and x[2]:
            return x[2][0]
        return INFEASIBLE
    if x[0] == "phi":
        ms = [_try_ok_of_built(m) if strip_wrappers(m)[0] in ("agg", "phi") else ("try_ok", m) for m in x[1]]
        if any(m is None for m in ms):
            return None
        # members that are not locally built stay `try_ok(member)`; a residual forwarded from an inner `?` cannot continue
        ms = [m for m in ms if not (m[0] == "try_ok" and strip_wrappers(m[1])[0] in ("try_err", "try_err?"))]
        return _phi(ms)
    return None


class Site:
    def __init__(self, body, bb, stmt_idx=None):
        self.body = body
        self.bb = bb
        self.stmt_idx = stmt_idx

    @property
    def root(self):
        return self.body.root or self.body.defn

    @property
    def loc(self):
        b = self.body
        if self.stmt_idx is not None:
            return b.f.span(b.blocks[self.bb].stmts[self.stmt_idx]["span"]).loc
        return b.f.span(b.blocks[self.bb].term["span"]).loc


class SendPaths:
    def __init__(self, facts):
        self.f = f = facts
        self.envelopes = []      # (Site, fields{name: term})
        self.stop_markers = []   # (Site, fields)
        self.errors = []         # (Site, variant, fields{name: term})
        self.mailbox_ops = []    # (Site, method)
        self.ctrl_ops = []
        self.records = []        # (Site, targs, arg terms, arg operands)
        self.timeouts = []       # Site of tokio::time::timeout calls
        self.oneshots = []       # Site of oneshot::channel calls
        self.thread_spawns = []
        self.block_ons = []
        import anchors
        self.record_def = anchors.record_def(f)
        self.names = anchors.names(f)
        for b in f.fn_bodies():
            cfg = cfg_of(b, unwind=True, cancel=True)
            tr = tracer_of(b)
            for blk in b.blocks:
                if blk.idx not in cfg.live:
                    continue
                for i, st in enumerate(blk.stmts):
                    if st["k"] != "assign" or "agg" not in st["rv"] or st["rv"]["agg"] != "adt":
                        continue
                    rv = st["rv"]
                    if rv["adt"] == self.names.mailbox:
                        flds = {n: tr.norm(tr.operand(o)) for n, o in zip(rv["fields"], rv["ops"])}
                        (self.envelopes if rv["variant"] == self.names.envelope else self.stop_markers).append((Site(b, blk.idx, i), flds, st))
                    elif rv["adt"] == "error::Error":
                        flds = {n: tr.norm(tr.operand(o)) for n, o in zip(rv["fields"], rv["ops"])}
                        self.errors.append((Site(b, blk.idx, i), rv["variant"], flds, st))
                if blk.term["k"] != "call":
                    continue
                fn = fn_of(blk)
                m = is_tokio_mpsc_sender_method(f, fn)
                if m:
                    (self.mailbox_ops if m[1] == "mailbox" else self.ctrl_ops if m[1] == "ctrl" else []).append((Site(b, blk.idx), m[0]))
                c = fn.get("def")
                p = fn.get("path") or ""
                if c is not None and c == self.record_def:
                    # arguments in the canonical order (identity, reason, operation, ..) whatever the recorder's own parameter
                    # order is (`reason.record::<M>(identity, op)` has the reason first): chosen by parameter type
                    ats = [tr.norm(a) for a in tr.call_args(blk.idx)]
                    ops_ = list(blk.term["args"])
                    ins = [f.ty(t) for t in f.fns[c]["inputs"]] if c in f.fns else []
                    if len(ins) == len(ats):
                        def pos(pred):
                            ix = [i for i, t in enumerate(ins) if pred(t.peel_refs())]
                            return ix[0] if len(ix) == 1 else None
                        order = [pos(lambda t: t.is_adt("Identity")), pos(lambda t: t.is_adt("dead_letter::DeadLetterReason")), pos(lambda t: t.k == "str" or t.s.endswith("str"))]
                        if all(i is not None for i in order) and len(set(order)) == 3:
                            order += [i for i in range(len(ats)) if i not in order]
                            ats = [ats[i] for i in order]
                            ops_ = [ops_[i] for i in order]
                    self.records.append((Site(b, blk.idx), [f.ty(t) for t in fn["targs"]], ats, ops_))
                elif p in ("tokio::time::timeout::timeout", "tokio::time::timeout::timeout_at"):
                    self.timeouts.append(Site(b, blk.idx))
                elif p == "tokio::sync::oneshot::channel":
                    self.oneshots.append(Site(b, blk.idx))
                elif p.startswith("std::thread::") and fn.get("name") in ("spawn", "spawn_unchecked", "scope"):
                    self.thread_spawns.append(Site(b, blk.idx))
                elif fn.get("name") == "block_on" and fn.get("krate") in ("tokio", "futures_executor"):
                    self.block_ons.append(Site(b, blk.idx))
        self._attribute_ctor_helpers()

    def _attribute_ctor_helpers(self):
        """Error values built by a pure constructor helper (`fn closed_error(&self) -> Error`)
        are attributed to the helper's call sites, with the fields re-expressed at the caller."""
        from prov import ctor_summary, substitute_params
        f = self.f
        helpers = {}
        for d, fn in f.fns.items():
            if fn.get("has_body") and not fn.get("async"):
                sm = ctor_summary(f, d, adts=("error::Error",))
                if sm is not None:
                    helpers[d] = sm
        if not helpers:
            return
        self.ctor_helpers = helpers
        # drop the aggregate sites that live inside the helpers
        self.errors = [e for e in self.errors if (e[0].body.root or e[0].body.defn) not in helpers]
        for b in f.fn_bodies():
            cfg = cfg_of(b, unwind=True, cancel=True)
            tr = tracer_of(b)
            for blk in b.calls():
                if blk.idx not in cfg.live:
                    continue
                fn = fn_of(blk)
                d = (fn.get("resolved") or {}).get("def") or fn.get("def")
                if d not in helpers:
                    continue
                r, ctr = helpers[d]
                args = [tr.norm(a) for a in tr.call_args(blk.idx)]
                rr = substitute_params(r, args, ctr)
                core = strip_wrappers(rr)
                wrapped = False
                if core[0] == "agg" and core[1][0] == "adt" and core[1][1] == "std::result::Result" and core[2]:
                    core = strip_wrappers(core[2][0])
                    wrapped = True
                if core[0] == "agg" and core[1][0] == "adt" and core[1][1] == "error::Error":
                    flds = dict(zip(core[1][3], core[2]))
                    self.errors.append((Site(b, blk.idx), core[1][2], flds, {"helper": d, "E": ("call", blk.idx, callee(blk.term)), "wrapped_err": wrapped}))

    # ---- guards / failure context ----------------------------------------------------------
    def guards(self, body, bb):
        """[(kind, subject term, arm name)] of switches whose arm dominates bb."""
        cfg = cfg_of(body)
        tr = tracer_of(body)
        out = []
        for blk in body.blocks:
            if blk.term["k"] != "switch" or blk.idx not in cfg.live:
                continue
            t = blk.term
            op = t["discr"]
            pl = op.get("copy") or op.get("move")
            if pl is None:
                continue
            kind, subj, names = "value", None, None
            if not pl["p"]:
                ds = tr.defs.get(pl["l"], [])
                if len(ds) == 1 and ds[0][0] == "assign" and "discr" in ds[0][3]:
                    kind = "discr"
                    subj = tr.norm(tr.place(ds[0][3]["discr"]))
                    names = variant_names(self.f, self.f.ty(ds[0][3]["ty"]))
            if subj is None:
                subj = tr.norm(tr.place(pl))
                if self.f.ty(t["discr_ty"]).k == "bool":
                    names = ["false", "true"]
            arms = {}
            if names:
                for v, tgt in t["arms"]:
                    if int(v) < len(names):
                        arms[names[int(v)]] = tgt
                rest = [n for n in names if n not in arms]
                if len(rest) == 1:
                    arms[rest[0]] = t["otherwise"]
            for n, tgt in arms.items():
                if sum(1 for x in arms.values() if x == tgt) > 1:
                    continue
                if tgt == bb or cfg.dominates(tgt, bb):
                    # the arm must not be reachable from the other arms (real guard)
                    out.append((kind, subj, n, blk.idx))
        return out

    def classify_result(self, body, t):
        """What operation produced the Result/Option term t?"""
        tr = tracer_of(body)
        t = strip_wrappers(t)
        if t[0] == "await":
            fut = strip_wrappers(t[1])
            # look through into_future
            guard = 0
            while fut[0] == "call" and fn_path(tr.call_term(fut[1])) == INTO_FUTURE and guard < 5:
                fut = strip_wrappers(tr.norm(tr.call_args(fut[1])[0]))
                guard += 1
            if fut[0] == "call":
                term = tr.call_term(fut[1])
                fn = term.get("fn") or {}
                m = is_tokio_mpsc_sender_method(self.f, fn)
                if m and m == ("send", "mailbox"):
                    return ("mailbox_send", fut[1])
                if (fn.get("path") or "") in ("tokio::time::timeout::timeout", "tokio::time::timeout::timeout_at"):
                    return ("timeout", fut[1])
                if fn.get("def") in ("actor_ref::ActorRef::<T>::ask", "actor_ref::ActorRef::<T>::tell"):
                    return ("base_op", fut[1], fn.get("name"))
                return ("await_call", fut[1], fn.get("def"))
            # awaiting a oneshot receiver / join handle local
            ty = self._term_type(body, fut)
            if ty is not None:
                if ty.is_adt("tokio::sync::oneshot::Receiver"):
                    return ("reply_wait", None)
                if ty.is_adt("tokio::task::JoinHandle"):
                    return ("join_wait", None)
            return ("await_other", show(fut))
        if t[0] == "call":
            term = tr.call_term(t[1])
            fn = term.get("fn") or {}
            m = is_tokio_mpsc_sender_method(self.f, fn)
            if m and m == ("blocking_send", "mailbox"):
                return ("mailbox_send", t[1])
            nm = fn.get("name")
            d = fn.get("def") or ""
            if nm == "blocking_recv" and "oneshot" in d:
                return ("reply_wait", t[1])
            if nm == "recv" and d.startswith("std::sync::mpsc::Receiver"):
                return ("helper_result", t[1])
            if nm == "build" and "runtime::Builder" in d:
                return ("runtime_build", t[1])
            if nm == "downcast":
                return ("downcast", t[1])
            if nm == "map_err":
                return ("map_err", t[1])
            return ("call", t[1], d)
        return None

    def _term_type(self, body, t):
        """Best-effort type of a term that is a local's value: search locals whose traced value equals t."""
        tr = tracer_of(body)
        for l in range(len(body.locals)):
            try:
                if strip_wrappers(tr.norm(tr.local(l))) == t:
                    return body.local_ty(l)
            except RecursionError:
                continue
        return None

    def failure_context(self, site, _depth=0):
        """What failure is the code at `site` conditioned on? Returns (kind, detail...) or None."""
        body = site.body
        # a) closure passed to map_err
        if body.def_kind == "Closure" and not body.is_coroutine and body.parent:
            par = self.f.body(body.parent)
            if par is not None:
                ptr = tracer_of(par)
                for blk in live_calls(par):
                    fn = fn_of(blk)
                    # closures that std calls exactly when the Result is an Err: map_err, unwrap_or_else, or_else
                    if fn.get("name") in ("map_err", "unwrap_or_else", "or_else") and (fn.get("def") or "").startswith("std::result::Result"):
                        args = ptr.call_args(blk.idx)
                        if len(args) == 2 and args[1][0] == "agg" and args[1][1] == ("closure", body.defn):
                            r = self.classify_result(par, ptr.norm(args[0]))
                            return ("map_err",) + (r if r else ("unknown",)) + ((par, blk.idx),)
        # b) guards
        for kind, subj, arm, sbb in self.guards(body, site.bb):
            if kind == "discr" and arm in ("Err", "None"):
                r = self.classify_result(body, subj)
                if r:
                    return ("guard",) + r
            if kind == "discr" and _depth < 3:
                # the guard tests a value of a crate-local enum built in this body (a classification such as
                # `ReplyOutcome::Dropped`): the code under its arm is conditioned on what every construction of that
                # variant is conditioned on
                sv = strip_wrappers(subj)
                members = list(sv[1]) if sv[0] == "phi" else [sv]
                adts = {m[1][1] for m in members if strip_wrappers(m)[0] == "agg" and strip_wrappers(m)[1][0] == "adt"}
                if len(adts) == 1 and next(iter(adts)) in self.f.adts and all(strip_wrappers(m)[0] == "agg" for m in members):
                    adt = next(iter(adts))
                    ctxs = set()
                    for blk in body.blocks:
                        for i, st in enumerate(blk.stmts):
                            if st["k"] == "assign" and st["rv"].get("agg") == "adt" and st["rv"].get("adt") == adt and st["rv"].get("variant") == arm \
                                    and blk.idx in cfg_of(body).live:
                                c2 = self.failure_context(Site(body, blk.idx, i), _depth + 1)
                                ctxs.add(c2[:3] if c2 else None)
                    if len(ctxs) == 1 and None not in ctxs:
                        return next(iter(ctxs))
            if kind == "value" and arm in ("true", "false"):
                s = strip_wrappers(subj)
                if s[0] == "call":
                    tr = tracer_of(body)
                    fn = tr.call_term(s[1]).get("fn") or {}
                    # `if r.is_err() {..}` and the else branch of `if r.is_ok() {..} else {..}` (likewise is_none / is_some)
                    if (fn.get("name"), arm) in (("is_err", "true"), ("is_ok", "false"), ("is_none", "true"), ("is_some", "false")) \
                            and (fn.get("def") or "").startswith(("std::result::Result", "std::option::Option")):
                        r = self.classify_result(body, tr.norm(tr.call_args(s[1])[0]))
                        if r:
                            return ("guard",) + r
        return None

    # ---- upvar resolution --------------------------------------------------------------------
    def lift(self, body, t, depth=0):
        """(body', t'): the term expressed in the enclosing body that defines it - through closure / coroutine captures
        (an upvar is the operand the parent put into the closure aggregate) and through fields of a struct value the
        parent built (`job.timeout` where `job = TimeoutJob { timeout, .. }`)."""
        t = strip_wrappers(t)
        if depth > 8:
            return body, t
        if t[0] == "upvar" and body.parent:
            par = self.f.body(body.parent)
            if par is None:
                return body, t
            ptr = tracer_of(par)
            for blk in par.blocks:
                for st in blk.stmts:
                    if st["k"] == "assign" and "agg" in st["rv"] and st["rv"].get("def") == body.defn:
                        ops = st["rv"]["ops"]
                        if t[1] < len(ops):
                            return self.lift(par, ptr.norm(ptr.operand(ops[t[1]])), depth + 1)
            return body, t
        if t[0] == "field":
            b2, inner = self.lift(body, t[2], depth + 1)
            inner = strip_wrappers(inner)
            s2 = simplify(("field", t[1], inner))
            if s2 != ("field", t[1], inner):
                return self.lift(b2, s2, depth + 1)
            return b2, ("field", t[1], inner)
        return body, t

    def resolve_to_root_param(self, body, t, depth=0):
        """Follow a term through closure/coroutine captures up to a parameter of the root fn.
        Returns ("param", root_def, index) | ("clone_of_param", root_def, index) | other term."""
        t = strip_wrappers(t)
        if depth > 6:
            return t
        if t[0] == "field":
            b2, t2 = self.lift(body, t)
            if (b2 is not body or t2 != t) and t2[0] != "field":
                return self.resolve_to_root_param(b2, t2, depth + 1)
        if t[0] == "param" and body.parent is None:
            return ("param", body.defn, t[1])
        if t[0] == "upvar" and body.parent:
            par = self.f.body(body.parent)
            if par is None:
                return t
            ptr = tracer_of(par)
            for blk in par.blocks:
                for st in blk.stmts:
                    if st["k"] == "assign" and "agg" in st["rv"] and st["rv"].get("def") == body.defn:
                        ops = st["rv"]["ops"]
                        if t[1] < len(ops):
                            return self.resolve_to_root_param(par, ptr.norm(ptr.operand(ops[t[1]])), depth + 1)
            return t
        if t[0] == "call":
            tr = tracer_of(body)
            fn = tr.call_term(t[1]).get("fn") or {}
            if fn.get("path") == "core::clone::Clone::clone":
                inner = self.resolve_to_root_param(body, tr.norm(tr.call_args(t[1])[0]), depth + 1)
                if inner[0] == "param":
                    return ("clone_of_param",) + inner[1:]
                return inner
        if t[0] == "param" and body.parent is not None:
            return ("closure_param", body.defn, t[1])
        return t

    def is_self_identity(self, body, t):
        """t denotes `self.identity()` of the root function's self (directly or through a
        constructor helper that was summarised)."""
        body, t = self.lift(body, t)      # `let identity = self.identity();` captured by a closure / carried in a struct
        t = strip_wrappers(t)
        if t[0] == "call" and t[2] in ("actor_ref::ActorRef::<T>::identity",):
            tr = tracer_of(body)
            who = self.resolve_to_root_param(body, tr.norm(tr.call_args(t[1])[0]))
            return who[0] in ("param", "clone_of_param") and who[2] == 1
        if t[0] == "calleecall" and t[1] in ("actor_ref::ActorRef::<T>::identity",) and t[2]:
            who = self.resolve_to_root_param(body, t[2][0])
            return who[0] in ("param", "clone_of_param") and who[2] == 1
        return False


def variant_names(f, ty):
    if ty.k != "adt":
        return None
    d = ty.defn
    std = {"std::option::Option": ["None", "Some"], "std::result::Result": ["Ok", "Err"], "std::task::Poll": ["Ready", "Pending"],
           "std::ops::ControlFlow": ["Continue", "Break"]}
    if d in std:
        return std[d]
    a = f.adts.get(d)
    if a:
        return [v["name"] for v in a["variants"]]
    return None


_cache = {}


def get(facts):
    sp = _cache.get(facts.path)
    if sp is None:
        sp = SendPaths(facts)
        _cache[facts.path] = sp
    return sp
