"""Path-wise denotation of small, loop-free function bodies (sibling comparison with branch polarity).

For every entry->return path (unwind edges ignored) the statements are evaluated in order into location-independent
terms (a call is `("callv", callee, args)`, not a block index), the branch decisions taken are collected with their
polarity, and the result is the list of (conditions, value of the return place). Conditions a value does not depend on
are merged away (`reduce`). Two computations agree iff their reduced denotations are equal - unlike a flow-insensitive
comparison of expression trees this distinguishes `if c {a} else {b}` from `if c {b} else {a}` and `c > 0` from `c > 1`,
while `if c == 0 {return Z}; X` and `if c > 0 {X} else {Z}` (unsigned c) are the same denotation."""
from cfg import const_int


class TooComplex(Exception):
    pass


def _proj(t, e):
    if e == "*":
        return t[1] if t[0] == "ref" else t
    if isinstance(e, int):
        if t[0] == "agg" and e < len(t[3]):
            return t[3][e]
        return ("field", e, t)
    if isinstance(e, dict) and "v" in e:
        if t[0] == "agg" and t[2] is not None and t[2] == e.get("name"):
            return t           # the variant this aggregate was built as: its fields are the components
        return ("downcast", e.get("name") or e["v"], t)
    return ("proj", str(e), t)


class PathEval:
    def __init__(self, f, body, max_paths=400):
        self.f = f
        self.b = body
        self.max_paths = max_paths
        self.depth = 0
        self.no_inline = set()
        self.out = []

    def place(self, env, p):
        t = env.get(p["l"], ("param", p["l"]) if 1 <= p["l"] <= self.b.arg_count else ("undef", p["l"]))
        for e in p["p"]:
            t = _proj(t, e)
        return t

    def operand(self, env, o):
        if "copy" in o:
            return self.place(env, o["copy"])
        if "move" in o:
            return self.place(env, o["move"])
        if "const" in o:
            c = o["const"]
            i = const_int(o)
            if i is not None:
                return ("int", i)
            if "fn" in c:
                return ("fnconst", c["fn"]["def"])
            if "static" in c:
                return ("static", c["static"])
            return ("const", c.get("s"))
        return ("other",)

    def rvalue(self, env, rv):
        if "use" in rv:
            return self.operand(env, rv["use"])
        if "ref" in rv:
            return ("ref", self.place(env, rv["ref"]))
        if "rawptr" in rv:
            return ("ref", self.place(env, rv["rawptr"]))
        if "cast" in rv:
            return self.operand(env, rv["cast"])
        if "binop" in rv:
            return ("binop", rv["binop"], self.operand(env, rv["a"]), self.operand(env, rv["b"]))
        if "unop" in rv:
            return ("unop", rv["unop"], self.operand(env, rv["a"]))
        if "discr" in rv:
            t = self.place(env, rv["discr"])
            if t[0] == "agg" and t[2] is not None:
                return ("variant", t[2])
            return ("discr", t)
        if "agg" in rv:
            ops = tuple(self.operand(env, o) for o in rv["ops"])
            if rv["agg"] == "adt":
                return ("agg", rv["adt"], rv["variant"], ops)
            return ("agg", rv["agg"], rv.get("def"), ops)
        return ("otherrv", str(sorted(rv.keys())))

    def _apply(self, fterm, argv):
        """Value of calling a function value (fn item or closure built on this path) on one argument; None if unknown."""
        if fterm[0] == "fnconst":
            return [((), ("callv", fterm[1], (argv,)))]
        if fterm[0] == "agg" and fterm[1] == "closure" and fterm[2]:
            cb = self.f.body(fterm[2])
            if cb is not None and self.depth < 3:
                try:
                    sub = PathEval(self.f, cb, self.max_paths)
                    sub.depth = self.depth + 1
                    sub._walk(0, {1: fterm, 2: argv} if argv is not None else {1: fterm}, (), frozenset())
                    return [(c2, v2) for c2, v2, _ in sub.out]
                except TooComplex:
                    return None
        return None

    def _std_model(self, name, short, args):
        opt = "std::option::Option"
        def some(x):
            return ("agg", opt, "Some", (x,))
        none = ("agg", opt, "None", ())
        if short == "get" and name.startswith("std::sync::OnceLock") and len(args) == 1:
            # an Option from the environment: decided once, at its source
            g = ("callv", name, args)
            return [(((("some", g), True),), some(("payload", g))), (((("some", g), False),), none)]
        if short == "checked_div" and len(args) == 2 and not name.startswith(self.f.crate + "::"):
            a, b = args
            return [((self.canon_cond(("binop", "Ne", b, ("int", 0)), True),), some(("binop", "Div", a, b))),
                    ((self.canon_cond(("binop", "Ne", b, ("int", 0)), False),), none)]
        if short in ("then", "then_some") and len(args) == 2 and ("bool" in name) and not name.startswith(self.f.crate + "::"):
            # `cond.then(|| v)` / `cond.then_some(v)`: Some(v) exactly when cond holds (the closure is evaluated only then)
            c = args[0]
            yes, no = self.canon_cond(c, True), self.canon_cond(c, False)
            if short == "then_some":
                return [((yes,), some(args[1])), ((no,), none)]
            r = self._apply(args[1], None)
            if r is None:
                return None
            return [((yes,) + tuple(c2), some(v2)) for c2, v2 in r] + [((no,), none)]
        if name.startswith(opt) and args and args[0][0] == "agg" and args[0][1] == opt:
            o = args[0]
            is_some = o[2] == "Some"
            if short == "map_or" and len(args) == 3:
                if not is_some:
                    return [((), args[1])]
                return self._apply(args[2], o[3][0])
            if short == "map_or_else" and len(args) == 3:
                if is_some:
                    return self._apply(args[2], o[3][0])
                return None
            if short == "map" and len(args) == 2:
                if not is_some:
                    return [((), none)]
                r = self._apply(args[1], o[3][0])
                return [(c, some(v)) for c, v in r] if r is not None else None
            if short == "and_then" and len(args) == 2:
                if not is_some:
                    return [((), none)]
                return self._apply(args[1], o[3][0])
            if short == "filter" and len(args) == 2:
                if not is_some:
                    return [((), none)]
                r = self._apply(args[1], ("ref", o[3][0]))
                if r is None:
                    return None
                out = []
                for c2, v2 in r:
                    out.append((tuple(c2) + (self.canon_cond(v2, True),), o))
                    out.append((tuple(c2) + (self.canon_cond(v2, False),), none))
                return out
            if short == "unwrap_or" and len(args) == 2:
                return [((), o[3][0] if is_some else args[1])]
            if short in ("copied", "cloned") and len(args) == 1:
                return [((), o)]           # the payload by value: references are transparent in these terms
            if short == "unwrap_or_else" and len(args) == 2:
                if is_some:
                    return [((), o[3][0])]
                return None
            if short in ("is_some", "is_none") and len(args) == 1:
                return [((), ("int", 1 if is_some == (short == "is_some") else 0))]
        return None

    @staticmethod
    def canon_cond(c, taken_true):
        """(key, polarity): zero tests on a value are one predicate `nz(x)`."""
        if c[0] == "binop" and c[3] == ("int", 0) and c[1] in ("Eq", "Ne", "Gt"):
            nz = (c[1] != "Eq") == taken_true
            return (("nz", c[2]), nz)
        if c[0] == "binop" and c[2] == ("int", 0) and c[1] in ("Eq", "Ne", "Lt"):
            nz = (c[1] != "Eq") == taken_true
            return (("nz", c[3]), nz)
        if c[0] == "unop" and c[1] == "Not":
            return PathEval.canon_cond(c[2], not taken_true)
        return (c, taken_true)

    def run(self):
        self._walk(0, {}, (), frozenset())
        return self.out

    def _walk(self, bb, env, conds, onpath):
        if bb in onpath:
            raise TooComplex("loop at bb%d" % bb)
        if len(self.out) > self.max_paths:
            raise TooComplex("too many paths")
        onpath = onpath | {bb}
        blk = self.b.blocks[bb]
        env = dict(env)
        for st in blk.stmts:
            if st["k"] == "assign":
                v = self.rvalue(env, st["rv"])
                p = st["place"]
                if not p["p"]:
                    env[p["l"]] = v
                elif p["p"] == ["*"] and env.get(p["l"], ("x",))[0] == "ref":
                    pass        # write through a reference: not modelled (callers only look at the return place)
        t = blk.term
        k = t["k"]
        if k == "return":
            self.out.append((conds, env.get(0, ("undef", 0)), env))
        elif k in ("goto", "false_edge", "false_unwind", "drop", "assert"):
            self._walk(t["target"], env, conds, onpath)
        elif k == "call":
            fn = t.get("fn") or {}
            args = tuple(self.operand(env, a) for a in t["args"])
            args = tuple(a for a in args if not (a[0] == "agg" and a[1] == "std::sync::atomic::Ordering"))
            name = fn.get("def") or "<indirect>"
            d = t["dest"]
            # a few std combinators are evaluated by their meaning, so that `a.checked_div(b).map_or(Z, f)` and
            # `if b > 0 { f(a / b) } else { Z }` are the same denotation
            model = self._std_model(name, fn.get("name"), args)
            if model is not None:
                for c2, v2 in model:
                    e2 = dict(env)
                    if not d["p"]:
                        e2[d["l"]] = v2
                    if t.get("target") is not None:
                        self._walk(t["target"], e2, conds + tuple(c2), onpath)
                return
            # a crate-local, loop-free callee (e.g. another accessor) is evaluated in place: its paths continue here
            cb = self.f.body((fn.get("resolved") or {}).get("def") or name) if fn else None
            if cb is not None and cb.defn not in self.no_inline and self.depth < 3 and cb.def_kind in ("Fn", "AssocFn") and not self.f.fns.get(cb.defn, {}).get("async") and len(args) == cb.arg_count:
                try:
                    sub = PathEval(self.f, cb, self.max_paths)
                    sub.depth = self.depth + 1
                    sub.no_inline = self.no_inline
                    env0 = {i + 1: a for i, a in enumerate(args)}
                    sub._walk(0, env0, (), frozenset())
                    res = [(c2, v2) for c2, v2, _ in sub.out]
                except TooComplex:
                    res = None
                if res:
                    for c2, v2 in res:
                        e2 = dict(env)
                        if not d["p"]:
                            e2[d["l"]] = v2
                        if t.get("target") is not None:
                            self._walk(t["target"], e2, conds + tuple(c2), onpath)
                    return
            if not d["p"]:
                env[d["l"]] = ("callv", name, args)
            if t.get("target") is not None:
                self._walk(t["target"], env, conds, onpath)
        elif k == "switch":
            c = self.operand(env, t["discr"])
            if c[0] == "int":
                tgt = t["otherwise"]
                for v, b2 in t["arms"]:
                    if int(v) == c[1]:
                        tgt = b2
                self._walk(tgt, env, conds, onpath)
                return
            if c[0] == "variant":
                # discriminant of an aggregate built on this path
                idx = {"None": 0, "Some": 1, "Ok": 0, "Err": 1, "Ready": 0, "Pending": 1, "Continue": 0, "Break": 1}.get(c[1])
                if idx is not None:
                    tgt = t["otherwise"]
                    for v, b2 in t["arms"]:
                        if int(v) == idx:
                            tgt = b2
                    self._walk(tgt, env, conds, onpath)
                    return
            vals = [int(v) for v, _ in t["arms"]]
            for v, b2 in t["arms"]:
                if vals == [0]:
                    cc = self.canon_cond(c, False)
                else:
                    cc = ((c, "=="), int(v))
                self._walk(b2, env, conds + (cc,), onpath)
            if vals == [0]:
                cc = self.canon_cond(c, True)
            else:
                cc = ((c, "=="), "other")
            self._walk(t["otherwise"], env, conds + (cc,), onpath)
        elif k in ("unreachable", "resume", "terminate"):
            return
        else:
            raise TooComplex("terminator %s" % k)


def reduce(entries):
    """entries: iterable of (conds tuple, value). Merges entries that differ only in the polarity of one condition
    and have the same value; drops duplicate conditions. Returns a frozenset of (frozenset(conds), value)."""
    cur = set()
    for conds, v in entries:
        cs = frozenset(conds)
        # contradictory path (same key both polarities) is infeasible
        keys = {}
        bad = False
        for k, pol in cs:
            if k in keys and keys[k] != pol:
                bad = True
            keys[k] = pol
        if not bad:
            cur.add((cs, v))
    changed = True
    while changed:
        changed = False
        lst = list(cur)
        for i, (c1, v1) in enumerate(lst):
            for c2, v2 in lst[i + 1:]:
                if v1 != v2 or len(c1) != len(c2):
                    continue
                d1, d2 = c1 - c2, c2 - c1
                if len(d1) == 1 and len(d2) == 1:
                    (k1, p1), = d1
                    (k2, p2), = d2
                    if k1 == k2 and p1 != p2:
                        cur.discard((c1, v1))
                        cur.discard((c2, v2))
                        cur.add((c1 & c2, v1))
                        changed = True
                        break
            if changed:
                break
        if not changed:
            # subsumption: (C, v) makes (C ∪ D, v) redundant
            for c1, v1 in list(cur):
                for c2, v2 in list(cur):
                    if v1 == v2 and c1 < c2 and (c2, v2) in cur:
                        cur.discard((c2, v2))
                        changed = True
    return frozenset(cur)


def denotation(f, body, project=None, no_inline=()):
    """Reduced denotation of the return value (or of project(return term))."""
    pe = PathEval(f, body)
    pe.no_inline = set(no_inline)
    paths = pe.run()
    ent = []
    for conds, ret, env in paths:
        v = project(ret) if project else ret
        ent.append((conds, v))
    return reduce(ent)


def show(den):
    out = []
    for conds, v in sorted(den, key=str):
        out.append("[%s] -> %s" % (" & ".join(("%s%s" % ("" if pol is True else "!" if pol is False else "%s:" % pol, _s(k))) for k, pol in sorted(conds, key=str)), _s(v)))
    return "; ".join(out)


def _s(t, d=0):
    if not isinstance(t, tuple) or d > 6:
        return str(t)
    if t[0] == "callv":
        return "%s(%s)" % (t[1].split("::")[-1], ", ".join(_s(a, d + 1) for a in t[2]))
    if t[0] == "field":
        return "%s.%s" % (_s(t[2], d + 1), t[1])
    if t[0] == "param":
        return "p%d" % t[1]
    if t[0] == "int":
        return str(t[1])
    if t[0] == "binop":
        return "(%s %s %s)" % (_s(t[2], d + 1), t[1], _s(t[3], d + 1))
    if t[0] == "ref":
        return "&" + _s(t[1], d + 1)
    if t[0] == "nz":
        return "nz(%s)" % _s(t[1], d + 1)
    if t[0] == "agg":
        return "%s::%s{%s}" % (str(t[1]).split("::")[-1], t[2], ", ".join(_s(a, d + 1) for a in t[3]))
    return "(" + " ".join(_s(x, d + 1) for x in t) + ")"
