"""E4 decision tables: an abstract evaluator for small, loop-free MIR bodies.

Inputs are abstract *shapes* (enum values with symbolic leaves, free booleans). The body's CFG
is walked exhaustively; a switch on a free/unknown boolean or on a `choice` value forks. The
result is the complete table {(assumptions) -> (returned value, effect trace)} of the body.
Crate-local callees are inlined (bounded depth); a handful of pure std functions have
built-in abstract semantics; every other call returns an opaque symbol and is recorded as an
effect. Loops are rejected (step bound) - this engine is only applied to accessors,
predicates, validators and dispatchers. No solver, no execution of the program."""
from cfg import CFG, callee

MAX_STEPS = 4000
MAX_PATHS = 4096


class Unsupported(Exception):
    pass


class Infeasible(Exception):
    pass


def B(x):
    return ("b", bool(x))


def enum(adt, variant, *fields):
    return ("enum", adt, variant, tuple(fields))


def sym(name):
    return ("sym", name)


def free(name):
    return ("free", name)


def choice(name, alts):
    return ("choice", name, tuple(alts))


OPTION = "std::option::Option"
RESULT = "std::result::Result"


def some(v):
    return enum(OPTION, "Some", v)


NONE = enum(OPTION, "None")


def ok(v):
    return enum(RESULT, "Ok", v)


def err(v):
    return enum(RESULT, "Err", v)


STD_VARIANTS = {
    OPTION: ["None", "Some"],
    RESULT: ["Ok", "Err"],
    "tokio::sync::mpsc::error::TrySendError": ["Full", "Closed"],
}


class Path:
    __slots__ = ("assume", "effects")

    def __init__(self, assume=None, effects=None):
        self.assume = dict(assume or {})
        self.effects = list(effects or [])

    def fork(self):
        return Path(self.assume, self.effects)


class Interp:
    def __init__(self, facts, builtins=None, inline=True, max_depth=4):
        self.f = facts
        self.builtins = dict(DEFAULT_BUILTINS)
        if builtins:
            self.builtins.update(builtins)
        self.inline = inline
        self.max_depth = max_depth
        self.paths = 0
        self._const_depth = 0

    # ---- variants ------------------------------------------------------------------------
    def variants(self, adt):
        if adt in STD_VARIANTS:
            return STD_VARIANTS[adt]
        a = self.f.adts.get(adt)
        if a:
            return [v["name"] for v in a["variants"]]
        return None

    def discr_of(self, v):
        if v[0] == "enum":
            names = self.variants(v[1])
            if names and v[2] in names:
                return names.index(v[2])
        if v[0] == "b":
            return int(v[1])
        if v[0] == "i":
            return v[1]
        raise Unsupported("discriminant of %r" % (v,))

    # ---- evaluation ----------------------------------------------------------------------
    def table(self, body, args, depth=0, path=None):
        """All outcomes [(Path, value)] of running `body` with abstract `args` (list)."""
        if len(args) != body.arg_count:
            raise Unsupported("arity mismatch for %s" % body.name)
        env = {i + 1: a for i, a in enumerate(args)}
        out = []
        self._run(body, CFG(body), 0, env, path or Path(), out, depth, [0])
        return out

    def _read_place(self, env, pl):
        l = pl["l"]
        if l not in env:
            raise Unsupported("read of unset local _%d" % l)
        v = env[l]
        for e in pl["p"]:
            v = self._project(v, e)
        return v

    def _project(self, v, e):
        if e == "*":
            if v[0] == "ref":
                return v[1]
            if v[0] in ("sym", "k"):
                return ("sym", v[1])
            raise Unsupported("deref of %r" % (v,))
        if isinstance(e, int):
            if v[0] == "enum":
                if e < len(v[3]):
                    return v[3][e]
                raise Unsupported("field %d of %r" % (e, v))
            if v[0] in ("sym", "k"):
                return ("sym", "%s.%d" % (v[1], e))      # a field of an opaque value / of a named constant: opaque
            if v[0] == "tuple":
                return v[1][e]
            if v[0] == "closure" and isinstance(v[2], tuple) and e < len(v[2]):
                return v[2][e]          # a captured value of a closure whose body was spliced in at its call
            raise Unsupported("field of %r" % (v,))
        if isinstance(e, dict) and "v" in e:
            if v[0] == "enum":
                name = e.get("name")
                if name is None:
                    names = self.variants(v[1])
                    name = names[e["v"]] if names else None
                if name != v[2]:
                    raise Infeasible()
                return v
            if v[0] == "sym":
                return ("sym", "%s as %s" % (v[1], e.get("name")))
            raise Unsupported("downcast of %r" % (v,))
        raise Unsupported("projection %r" % (e,))

    def _operand(self, env, op):
        if "copy" in op:
            return self._read_place(env, op["copy"])
        if "move" in op:
            return self._read_place(env, op["move"])
        if "const" in op:
            c = op["const"]
            t = self.f.ty(c["ty"])
            if "fn" in c:
                return ("fn", c["fn"]["def"])
            if t.k == "bool":
                return B(c["s"] == "true")
            if "int" in c:
                return ("i", int(c["int"]))
            if t.k == "tuple" and not t.arg_ids:
                return ("unit",)
            # a promoted constant (`&Some(Variant)`) or a crate-level const: evaluate its (argument-free) body
            cb = self.f.by_def.get(c["s"])
            if cb and len(cb) == 1 and (cb[0].def_kind == "Promoted" or cb[0].def_kind.startswith("Const")) and self._const_depth < 3:
                self._const_depth += 1
                try:
                    res = self.table(cb[0], [])
                    if len(res) == 1:
                        return res[0][1]
                except (Unsupported, Infeasible):
                    pass
                finally:
                    self._const_depth -= 1
            return ("k", c["s"])
        raise Unsupported("operand %r" % (op,))

    def _rvalue(self, env, rv, body):
        if "use" in rv:
            return self._operand(env, rv["use"])
        if "ref" in rv:
            return ("ref", self._read_place(env, rv["ref"]))
        if "rawptr" in rv:
            return ("ref", self._read_place(env, rv["rawptr"]))
        if "discr" in rv:
            v = self._read_place(env, rv["discr"])
            if v[0] in ("sym", "free", "choice"):
                return ("discr", v)
            return ("i", self.discr_of(v))
        if "agg" in rv:
            ops = [self._operand(env, o) for o in rv["ops"]]
            if rv["agg"] == "adt":
                return enum(rv["adt"], rv["variant"], *ops)
            if rv["agg"] == "tuple":
                return ("tuple", tuple(ops)) if ops else ("unit",)
            if rv["agg"] in ("closure", "coroutine"):
                return ("closure", rv["def"], tuple(ops), rv["agg"])
            return ("sym", "agg")
        if "unop" in rv:
            a = self._operand(env, rv["a"])
            if rv["unop"] == "Not":
                if a[0] == "b":
                    return B(not a[1])
                return ("not", a)
            return ("sym", "unop")
        if "binop" in rv:
            a = self._operand(env, rv["a"])
            b = self._operand(env, rv["b"])
            op = rv["binop"]
            if a[0] in ("i", "b") and b[0] in ("i", "b"):
                x, y = a[1], b[1]
                r = {"Eq": x == y, "Ne": x != y, "Lt": x < y, "Le": x <= y, "Gt": x > y, "Ge": x >= y}.get(op)
                if r is not None:
                    return B(r)
                if op == "BitAnd" and a[0] == "b":
                    return B(x and y)
                if op == "BitOr" and a[0] == "b":
                    return B(x or y)
            return ("cmp", op, a, b)
        if "cast" in rv:
            return self._operand(env, rv["cast"])
        return ("sym", "rvalue")

    def _truth(self, v, path):
        """Resolve a boolean-ish abstract value to [(path, bool)] (forking on unknowns)."""
        if v[0] == "b":
            return [(path, v[1])]
        if v[0] == "i":
            return [(path, v[1] != 0)]
        if v[0] == "not":
            return [(p, not b) for p, b in self._truth(v[1], path)]
        key = repr(v) if v[0] not in ("free", "sym") else v[1]
        if v[0] == "cmp":
            # zero tests on an unsigned symbolic count are one predicate: `n > 0`, `n != 0`, `0 < n`, and negated `n == 0`
            op, a, b = v[1], v[2], v[3]
            if a[0] == "symint" and b == ("i", 0) and op in ("Ne", "Eq", "Ge", "Le"):
                if op == "Ne":
                    return self._truth(("cmp", "Gt", a, b), path)
                if op == "Eq" or op == "Le":
                    return [(p, not t) for p, t in self._truth(("cmp", "Gt", a, b), path)]
            if b[0] == "symint" and a == ("i", 0) and op in ("Lt", "Ne", "Eq", "Ge"):
                if op in ("Lt", "Ne"):
                    return self._truth(("cmp", "Gt", b, a), path)
                return [(p, not t) for p, t in self._truth(("cmp", "Gt", b, a), path)]
            key = "%s(%s,%s)" % (v[1], _short(v[2]), _short(v[3]))
        if key in path.assume:
            return [(path, path.assume[key])]
        out = []
        for val in (False, True):
            p = path.fork()
            p.assume[key] = val
            out.append((p, val))
        return out

    def _noise(self, body, span_id):
        sp = self.f.span(span_id)
        return any(m.startswith("tracing::") or m.startswith("tracing_core::") for m in sp.macros)

    def _run(self, body, cfg, bb0, env0, path0, out, depth, steps):
        """Worklist exploration with state merging: identical (block, env, assumptions,
        effects) states are explored once, so diamonds of logging branches do not multiply."""
        stack = [(bb0, env0, path0)]
        visited = set()
        while stack:
            bb, env, path = stack.pop()
            while True:
                key = (bb, frozenset(env.items()), frozenset(path.assume.items()), tuple(path.effects))
                if key in visited:
                    break
                visited.add(key)
                steps[0] += 1
                if steps[0] > MAX_STEPS * 10 or self.paths > MAX_PATHS:
                    raise Unsupported("step/path bound exceeded in %s (loop?)" % body.name)
                blk = body.blocks[bb]
                for st in blk.stmts:
                    if st["k"] == "assign":
                        pl = st["place"]
                        v = self._rvalue(env, st["rv"], body)
                        if pl["p"]:
                            raise Unsupported("assignment to a projection in %s" % body.name)
                        env[pl["l"]] = v
                    elif st["k"] == "dead":
                        env.pop(st["l"], None)
                t = blk.term
                k = t["k"]
                if k == "return":
                    out.append((path, env.get(0, ("unit",))))
                    self.paths += 1
                    break
                if k in ("goto", "false_edge", "false_unwind", "drop", "assert"):
                    bb = t["target"]
                    continue
                if k == "unreachable":
                    break
                if k == "switch":
                    v = self._operand(env, t["discr"])
                    if v[0] == "discr":
                        inner = v[1]
                        if inner[0] == "choice":
                            for alt in inner[2]:
                                p2 = path.fork()
                                p2.assume[inner[1]] = _short(alt)
                                env2 = {l: _subst(val, inner, alt) for l, val in env.items()}
                                stack.append((_target(t, self.discr_of(alt)), env2, p2))
                            break
                        raise Unsupported("switch on discriminant of %r in %s" % (inner, body.name))
                    if v[0] in ("i", "b"):
                        bb = _target(t, int(v[1]))
                        continue
                    if v[0] == "choice" and all(a[0] in ("i", "b") for a in v[2]):
                        for alt in v[2]:
                            p2 = path.fork()
                            p2.assume[v[1]] = _short(alt)
                            env2 = {l: _subst(val, v, alt) for l, val in env.items()}
                            stack.append((_target(t, int(alt[1])), env2, p2))
                        break
                    ty = self.f.ty(t["discr_ty"])
                    if ty.k == "bool":
                        if self._noise(body, t["span"]):
                            # logging-only condition: explore both ways without recording it
                            for val in (0, 1):
                                stack.append((_target(t, val), dict(env), path.fork()))
                        else:
                            for p2, val in self._truth(v, path):
                                stack.append((_target(t, int(val)), dict(env), p2))
                        break
                    if self._noise(body, t["span"]):
                        for _, tb in t["arms"]:
                            stack.append((tb, dict(env), path.fork()))
                        stack.append((t["otherwise"], dict(env), path.fork()))
                        break
                    raise Unsupported("switch on %r in %s" % (v, body.name))
                if k == "call":
                    args = [self._operand(env, a) for a in t["args"]]
                    if self._noise(body, t["span"]) and t.get("fn") is not None and t["fn"].get("krate") != self.f.crate:
                        results = [(path, sym("log@%d" % blk.idx))]
                    else:
                        results = self._call(body, blk, t, args, path, depth)
                    if t["target"] is None:
                        for p2, _ in results:
                            out.append((p2, ("diverge", callee(t))))
                        break
                    dest = t["dest"]
                    if dest["p"]:
                        raise Unsupported("call destination projection")
                    if len(results) == 1:
                        path, val = results[0]
                        env[dest["l"]] = val
                        bb = t["target"]
                        continue
                    for p2, val in results:
                        env2 = dict(env)
                        env2[dest["l"]] = val
                        stack.append((t["target"], env2, p2))
                    break
                raise Unsupported("terminator %s in %s" % (k, body.name))

    def _call(self, body, blk, t, args, path, depth):
        fn = t.get("fn")
        if fn is None:
            path.effects.append(("indirect", None))
            return [(path, sym("indirect@%d" % blk.idx))]
        r = fn.get("resolved")
        if r and self.inline and depth < self.max_depth:
            cb = self.f.body(r["def"])
            if cb is not None and cb.def_kind in ("Fn", "AssocFn") and not self.f.fns.get(r["def"], {}).get("async"):
                return list(self.table(cb, args, depth + 1, path))
        names = [fn.get("path"), fn["def"]]
        if r:
            names.insert(0, r["def"])
        for n in names:
            bi = self.builtins.get(n)
            if bi is not None:
                return bi(self, fn, args, path, body, blk, depth)
        bi = self.builtins.get("name:" + (fn.get("name") or ""))
        if bi is not None:
            res = bi(self, fn, args, path, body, blk, depth)
            if res is not None:
                return res
        # crate-local callee: inline
        if self.inline and depth < self.max_depth:
            for n in ([r["def"]] if r else []) + [fn["def"]]:
                cb = self.f.body(n)
                if cb is not None and cb.def_kind in ("Fn", "AssocFn") and not self.f.fns.get(n, {}).get("async"):
                    res = self.table(cb, args, depth + 1, path)
                    return [(p, v) for p, v in res]
        path.effects.append(("call", fn["def"], tuple(_short(a) for a in args)))
        return [(path, sym("%s@%s:%d" % (fn.get("name"), body.name.split("::")[-1], blk.idx)))]

    def concretize_bool(self, res):
        """Fork symbolic boolean results into concrete ones (under recorded assumptions)."""
        out = []
        for p, v in res:
            if v[0] in ("b", "diverge"):
                out.append((p, v))
            else:
                for p2, val in self._truth(v, p):
                    out.append((p2, B(val)))
        return out

    def call_closure(self, clos, args, path, depth):
        """Apply an abstract closure value to arguments (FnOnce/Fn call)."""
        if clos[0] != "closure":
            raise Unsupported("call of non-closure %r" % (clos,))
        cb = self.f.body(clos[1])
        if cb is None:
            raise Unsupported("closure body %s not found" % clos[1])
        env_val = ("enum", "<closure>", "closure", clos[2])
        # closure bodies take (env, args...) ; by-ref closures take &env - both read via `_1.k` / `(*_1).k`
        first = env_val
        t1 = cb.local_ty(1)
        if t1.k in ("ref", "refmut"):
            first = ("ref", env_val)
        return self.table(cb, [first] + list(args), depth + 1, path)


def _target(t, d):
    for v, bb in t["arms"]:
        if int(v) == d:
            return bb
    return t["otherwise"]


def _subst(val, what, repl):
    if val == what:
        return repl
    if isinstance(val, tuple):
        if val and val[0] in ("ref", "not") and len(val) == 2:
            return (val[0], _subst(val[1], what, repl))
        if val and val[0] == "enum":
            return ("enum", val[1], val[2], tuple(_subst(x, what, repl) for x in val[3]))
        if val and val[0] == "discr":
            return ("discr", _subst(val[1], what, repl))
    return val


def _short(v):
    if not isinstance(v, tuple):
        return str(v)
    k = v[0]
    if k == "enum":
        n = "%s::%s" % (v[1].split("::")[-1], v[2])
        return n + ("(%s)" % ", ".join(_short(x) for x in v[3]) if v[3] else "")
    if k in ("sym", "symint"):
        return "?" + v[1]
    if k == "free":
        return "$" + v[1]
    if k == "b":
        return "true" if v[1] else "false"
    if k == "i":
        return str(v[1])
    if k == "ref":
        return "&" + _short(v[1])
    if k == "unit":
        return "()"
    if k == "k":
        return v[1]
    if k == "closure":
        return "closure[%s]" % v[1]
    if k == "choice":
        return "choice:" + v[1]
    if k == "not":
        return "!" + _short(v[1])
    if k == "tuple":
        return "(" + ", ".join(_short(x) for x in v[1]) + ")"
    return str(v)


show = _short


# ---- built-in abstract semantics of pure std functions ------------------------------------
def _peel(v):
    while v[0] == "ref":
        v = v[1]
    return v


def bi_is_some(it, fn, args, path, body, blk, depth):
    v = _peel(args[0])
    if v[0] == "enum" and v[1] == OPTION:
        return [(path, B(v[2] == "Some"))]
    return [(path, free("is_some(%s)" % _short(v)))]


def bi_is_none(it, fn, args, path, body, blk, depth):
    v = _peel(args[0])
    if v[0] == "enum" and v[1] == OPTION:
        return [(path, B(v[2] == "None"))]
    return [(path, free("is_none(%s)" % _short(v)))]


def bi_is_ok(it, fn, args, path, body, blk, depth):
    v = _peel(args[0])
    if v[0] == "enum" and v[1] == RESULT:
        return [(path, B(v[2] == "Ok"))]
    return [(path, free("is_ok(%s)" % _short(v)))]


def bi_is_err(it, fn, args, path, body, blk, depth):
    v = _peel(args[0])
    if v[0] == "enum" and v[1] == RESULT:
        return [(path, B(v[2] == "Err"))]
    return [(path, free("is_err(%s)" % _short(v)))]


def bi_as_ref(it, fn, args, path, body, blk, depth):
    v = _peel(args[0])
    if v[0] == "enum" and v[1] == OPTION:
        if v[2] == "Some":
            return [(path, some(("ref", v[3][0])))]
        return [(path, NONE)]
    return [(path, sym("as_ref(%s)" % _short(v)))]


def bi_identity(it, fn, args, path, body, blk, depth):
    return [(path, args[0])]


def bi_map_err(it, fn, args, path, body, blk, depth):
    v = args[0]
    if v[0] == "choice":
        out = []
        for alt in v[2]:
            p2 = path.fork()
            p2.assume[v[1]] = _short(alt)
            out.extend(bi_map_err(it, fn, [alt, args[1]], p2, body, blk, depth))
        return out
    if v[0] == "enum" and v[1] == RESULT:
        if v[2] == "Ok":
            return [(path, v)]
        res = it.call_closure(args[1], [v[3][0]], path, depth)
        return [(p, err(x)) for p, x in res]
    raise Unsupported("map_err on %r" % (v,))


def bi_result_map(it, fn, args, path, body, blk, depth):
    v = args[0]
    if v[0] == "choice":
        out = []
        for alt in v[2]:
            p2 = path.fork()
            p2.assume[v[1]] = _short(alt)
            out.extend(bi_result_map(it, fn, [alt, args[1]], p2, body, blk, depth))
        return out
    if v[0] == "enum" and v[1] == RESULT:
        if v[2] == "Err":
            return [(path, v)]
        res = it.call_closure(args[1], [v[3][0]], path, depth)
        return [(p, ok(x)) for p, x in res]
    raise Unsupported("Result::map on %r" % (v,))


def bi_then_some(it, fn, args, path, body, blk, depth):
    b = args[0]
    if b[0] in ("b", "i"):
        return [(path, some(args[1]) if int(b[1]) else NONE)]
    raise Unsupported("then_some on %r" % (b,))


def bi_ok_or_else(it, fn, args, path, body, blk, depth):
    v = args[0]
    if v[0] == "enum" and v[1] == OPTION:
        if v[2] == "Some":
            return [(path, ok(v[3][0]))]
        res = it.call_closure(args[1], [], path, depth)
        return [(p, err(x)) for p, x in res]
    raise Unsupported("ok_or_else on %r" % (v,))


def bi_result_and_then(it, fn, args, path, body, blk, depth):
    v = args[0]
    if v[0] == "choice":
        out = []
        for alt in v[2]:
            p2 = path.fork()
            p2.assume[v[1]] = _short(alt)
            out.extend(bi_result_and_then(it, fn, [alt, args[1]], p2, body, blk, depth))
        return out
    if v[0] == "enum" and v[1] == RESULT:
        if v[2] == "Err":
            return [(path, v)]
        return list(it.call_closure(args[1], [v[3][0]], path, depth))
    raise Unsupported("Result::and_then on %r" % (v,))


def bi_option_map(it, fn, args, path, body, blk, depth):
    v = args[0]
    if v[0] == "enum" and v[1] == OPTION:
        if v[2] == "None":
            return [(path, v)]
        res = it.call_closure(args[1], [v[3][0]], path, depth)
        return [(p, some(x)) for p, x in res]
    raise Unsupported("Option::map on %r" % (v,))


def bi_clone(it, fn, args, path, body, blk, depth):
    return [(path, _peel(args[0]))]


def _concrete(v):
    if not isinstance(v, tuple):
        return True
    if v and v[0] in ("sym", "free", "choice", "k"):
        return False
    return all(_concrete(x) for x in v)


def bi_eq(it, fn, args, path, body, blk, depth):
    """Derived structural equality on fully known values (`phase == Some(FailurePhase::OnStart)`)."""
    if len(args) != 2:
        return None
    a, b = _peel(args[0]), _peel(args[1])
    while isinstance(a, tuple) and a and a[0] == "ref":
        a = _peel(a[1])
    while isinstance(b, tuple) and b and b[0] == "ref":
        b = _peel(b[1])
    if not (_concrete(a) and _concrete(b)):
        return None
    if not (a[0] in ("enum", "b", "i", "unit") and b[0] in ("enum", "b", "i", "unit")):
        return None
    r = a == b
    return [(path, B(r if fn.get("name") == "eq" else not r))]


def bi_into(it, fn, args, path, body, blk, depth):
    """`x.into()` is `U::from(x)` (the std blanket impl): evaluated through the crate's own `From<X> for U` impl when the
    argument is a value of a crate ADT X with exactly one such impl for the requested target."""
    v = _peel(args[0]) if args else None
    if v and v[0] == "choice":
        out = []
        for alt in v[2]:
            p2 = path.fork()
            p2.assume[v[1]] = _short(alt)
            r = bi_into(it, fn, [alt] + list(args[1:]), p2, body, blk, depth)
            if r is None:
                return None
            out.extend(r)
        return out
    if not (v and v[0] == "enum"):
        return None
    want = fn.get("targs") or []
    cands = []
    for d, ff in it.f.fns.items():
        if ff.get("name") == "from" and ff.get("impl_trait") == "std::convert::From" and ff.get("has_body") and ff["inputs"] and it.f.ty(ff["inputs"][0]).is_adt(v[1]):
            if len(want) >= 2 and it.f.ty(ff["output"]).s != it.f.ty(want[1]).s and it.f.ty(ff["output"]).k != it.f.ty(want[1]).k:
                continue
            cands.append(d)
    if len(cands) != 1 or depth >= it.max_depth:
        return None
    cb = it.f.body(cands[0])
    if cb is None:
        return None
    return list(it.table(cb, args, depth + 1, path))


def bi_discriminant_value(it, fn, args, path, body, blk, depth):
    """The intrinsic behind the derived PartialEq of a field-less enum."""
    v = _peel(args[0]) if args else None
    if v and v[0] == "enum":
        return [(path, ("i", it.discr_of(v)))]
    return None


def bi_is_some_and(it, fn, args, path, body, blk, depth):
    v = args[0]
    if v[0] == "enum" and v[1] == OPTION:
        if v[2] == "None":
            return [(path, B(False))]
        return list(it.call_closure(args[1], [v[3][0]], path, depth))
    raise Unsupported("is_some_and on %r" % (v,))


DEFAULT_BUILTINS = {
    "name:discriminant_value": bi_discriminant_value,
    "std::option::Option::<T>::is_some_and": bi_is_some_and,
    "name:into": bi_into,
    "name:eq": bi_eq,
    "name:ne": bi_eq,
    "core::option::{impl#0}::is_some": bi_is_some,
    "std::option::Option::<T>::is_some": bi_is_some,
    "std::option::Option::<T>::is_none": bi_is_none,
    "std::option::Option::<T>::as_ref": bi_as_ref,
    "std::option::Option::<T>::map": bi_option_map,
    "std::result::Result::<T, E>::is_ok": bi_is_ok,
    "std::result::Result::<T, E>::is_err": bi_is_err,
    "std::result::Result::<T, E>::map_err": bi_map_err,
    "std::result::Result::<T, E>::map": bi_result_map,
    "std::result::Result::<T, E>::and_then": bi_result_and_then,
    "std::option::Option::<T>::ok_or_else": bi_ok_or_else,
    "name:then_some": lambda it, fn, args, path, body, blk, depth: bi_then_some(it, fn, args, path, body, blk, depth) if (fn.get("def") or "").startswith(("std::bool", "core::bool", "bool::")) or "bool" in (fn.get("def") or "") else None,
    "core::ops::deref::Deref::deref": lambda it, fn, a, p, b, k, d: [(p, ("ref", _peel(a[0])))],
}
