"""Per-property manifest metadata (level text, trusted base, technique)."""

NOT_YET = "check not built yet in this round (static rules for this property are planned in DESIGN.md section 6); not claimed until the rule module exists"
NOTES = ("All checks are static: they compile /repo's current working tree under the analysed feature sets with a rustc_private "
         "driver (no code of /repo is executed), export MIR/type/layout facts and decide repository-specific structural obligations. "
         "Each check states in its evidence which clauses of the property are decided and which rest on the trusted base (tokio/std axioms T1-T9, DESIGN.md section 4).")

ASSUME = "Assumes the documented semantics of tokio/std primitives (axioms %s of DESIGN.md section 4) and that the MIR exported by the pinned nightly describes the program the stable toolchain builds. Decides structural obligations for all paths of the compiled crate under the analysed feature sets; does not execute the code."

CHECKS = {
    "C04": {
        "text": "For every path of the lifecycle coroutine (all feature sets): on_start is called once, outside loops, and its Ok outcome dominates every other hook and the select!; after its Err nothing but `return` is reachable; after any on_stop no hook/recv/select is reachable; every non-start-failure return has passed exactly one completed on_stop; the `killed` argument of each on_stop call equals 'a Terminate signal was consumed' on every abstract path (exhaustive exploration of CFG x constant store x outcome flags); no hook on unwind paths, no catch_unwind. This is a proof of the ordering clauses relative to the tokio axioms, which is what the all-schedules quantifier needs; tests only sample schedules.",
        "note": ASSUME % "T4, T6, T8, T9",
        "technique": "static analysis: MIR dominance/reachability + abstract interpretation over a finite store (custom rustc driver)",
    },
}
