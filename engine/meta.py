"""Per-property manifest metadata (level text, trusted base, technique)."""

NOT_YET = "check not built yet in this round (static rules for this property are planned in DESIGN.md section 6); not claimed until the rule module exists"
NOTES = ("All checks are static: they compile /repo's current working tree under the analysed feature sets with a rustc_private "
         "driver (no code of /repo is executed), export MIR/type/layout facts and decide repository-specific structural obligations. "
         "Each check states in its evidence which clauses of the property are decided and which rest on the trusted base (tokio/std axioms T1-T9, DESIGN.md section 4).")

ASSUME = "Assumes the documented semantics of tokio/std primitives (axioms %s of DESIGN.md section 4) and that the MIR exported by the pinned nightly describes the program the stable toolchain builds. Decides structural obligations for all paths of the compiled crate under the analysed feature sets; does not execute the code."

CHECKS = {
    "C04": {
        "text": "For every path of the lifecycle coroutine (all feature sets): on_start is called once, outside loops, and its Ok outcome dominates every other hook and the select!; after its Err nothing but `return` is reachable; after any on_stop no hook/recv/select is reachable; every non-start-failure return has passed exactly one completed on_stop; the `killed` argument of each on_stop call equals 'a Terminate signal was consumed' on every abstract path (exhaustive exploration of CFG x constant store x outcome flags); no hook on unwind paths, no catch_unwind. This is a proof of the ordering clauses relative to the tokio axioms, which is what the all-schedules quantifier needs; tests only sample schedules.",
        "note": ASSUME % "T4, T6, T8, T9",
        "technique": "static analysis: MIR dominance/reachability + abstract interpretation over a finite store (custom rustc driver)",
    },
    "C05": {
        "text": "Exit table: every abstract return state of the lifecycle coroutine (exhaustive exploration of CFG x constant store x hook-outcome flags, all feature sets) is compared field by field with what its path says happened (variant, phase constant, killed == Terminate consumed, error == Err payload of the first failing hook, actor == the instance every hook borrowed, None only after failed on_start). The lifecycle future goes directly into tokio::spawn and catch_unwind is absent, so a panic can only surface as JoinError (tokio axiom). Accessor laws: the complete decision table of all 14 ActorResult methods and the tuple conversion, computed from MIR over all 18 shapes of the enum, equals the law table. All combinations of cause x hook outcome are covered because they are all paths of one function.",
        "note": ASSUME % "T6, T8, T9",
        "technique": "static analysis: abstract interpretation of the lifecycle MIR (exit table) + exhaustive decision tables of loop-free accessors + who-may-call",
    },
    "C06": {
        "text": "kill(): full decision table (Ok/Full/Closed x logging branches) always returns Ok(()); plain fn, no suspension point, no lock/blocking/thread/runtime primitive reachable (crate-local callees inlined to depth 3), only channel operation is try_send on the dedicated control channel (constant capacity >= 1, one try_send site in the crate). Pre-emption: exactly one select! in the loop, `biased;`, branch order control-recv < mailbox-recv < on_run established by mapping resolved calls into the DSL branch spans, first two unconditional, no random start in the poll closure, at most one handler per iteration, Some(_) arm leads to on_stop(killed=true) without a further handler; the type-erased kill methods are plain forwarders. With tokio's documented biased-select semantics this implies the property for every schedule.",
        "note": ASSUME % "T1, T2, T4, T8, T9",
        "technique": "static analysis: select!-DSL lexing + resolved-call mapping, decision table of kill(), who-may-call on the control channel, CFG reachability",
    },
    "C07": {
        "text": "No strong handle is stored in the lifecycle coroutine across the select! suspension point (compiler's coroutine layout + ownership walk over saved-local types + must-move dataflow for the locals the pre-elaboration layout over-approximates), for every feature set; the spawn function leaks no strong value; ActorWeak owns nothing strong, only ActorWeak/ActorRef are coerced into the weak/strong trait objects, no other impls, no static owns a handle; every loop-exit edge lies in the control-signal, stop/None or on_run-Err arm, the other arms only return to the select!; closed channels lead to on_stop(false)/Completed{killed:false} (C04/C05 rules re-evaluated); stop() really enqueues its in-band marker and the marker ends message handling; under `biased;` both receiver branches are polled before any user-code branch and the mailbox branch is unconditional (no starvation of an accepted stop by an always-ready on_run); a dequeued message is never skipped (handler exactly once); upgrade() decided by its decision table.",
        "note": ASSUME % "T2, T4, T8, T9",
        "technique": "static analysis: coroutine-layout liveness + ownership type walk + must-move dataflow, loop-exit dominance, impl/unsize-coercion inventory",
    },
    "C08": {
        "text": "on_run is the last branch of the biased select! (C06 select rules); its precondition is a single bool local (located through the macro call-site span), initialised true before the loop, never mutably borrowed, assigned inside the loop only the constant false under the Ok(false) arm; in the exhaustive abstract exploration (with tokio's disabled-branch semantics) every re-entry of the select! after Ok(false) has the flag false and after Ok(true) true; both arms only return to the select!; Err leads to exactly one on_stop(false) and a Failed result; the on_run future is polled only by the select!.",
        "note": ASSUME % "T4, T8, T9",
        "technique": "static analysis: select!-DSL facts + reaching assignments of the idle flag + abstract interpretation of the loop",
    },
    "C01": {
        "text": "Assume/guarantee over the one bounded tokio channel: an envelope is queued exactly once iff its send returned Ok (axiom). Decided for every path and feature set: each envelope construction boxes the message parameter, embeds self.clone() and flows into exactly one waiting send on self.sender, outside loops and dominating every return; Error::Send only on the failing outcome of that send; no stray enqueue; in-band stop marker; the loop calls handle_message exactly once per dequeued Envelope with that envelope's fields and awaits it to completion before the next select!; PayloadHandler calls Message::handle once on every path with *self; single consumer of the mailbox Receiver; every queued message owns an ActorRef and the loop stores no strong handle across the select!, so termination cannot overtake queued work. Holds for all schedules because no obligation mentions a schedule.",
        "note": ASSUME % "T1, T2, T4, T5, T9",
        "technique": "static analysis: provenance of envelope constructions and channel operations (who-may-call), dominance on send functions and on the lifecycle loop, coroutine-layout ownership",
    },
    "C02": {
        "text": "Order preservation reduces (tokio FIFO axiom) to: one queue, direct enqueue in caller program order, inline handling. Decided: exactly one bounded mailbox channel whose halves go to ActorRef::new / the lifecycle, every ActorRef construction inherits that sender, no unbounded/second channel, mailbox Sender used only via send/blocking_send each consuming a message built in the same body, no spawned task/thread sends except the blocking timeout helpers whose caller waits for the helper result on every path, one recv site, handler awaited inline before the next select!, the blanket handler future runs the user's handler exactly once on every path (a dequeued message is never skipped), stop marker in-band and ending message handling.",
        "note": ASSUME % "T1, T4, T9",
        "technique": "static analysis: who-may-call on channel constructors/methods and task spawns, provenance of channel halves, dominance",
    },
    "C03": {
        "text": "Reply integrity by provenance: per-call oneshot, its sender inside the same envelope aggregate as the message, its receiver the only thing waited on after the send, downcast to the handler's Reply type, Ok value returned unchanged; the single oneshot send of the crate sends Box::new(value of the single Message::handle call) on the envelope's own channel. No hang: failing outcomes of send / reply wait reach `return Err` without suspension, loop or blocking call; both receivers are owned by the lifecycle coroutine family and never moved out or leaked, so every exit (incl. unwinding) drops queued envelopes and their oneshot senders (tokio/ownership axioms). ask_join shape decided by provenance.",
        "note": ASSUME % "T1, T3, T9",
        "technique": "static analysis: value provenance through await/?/map_err, reachability from failure arms, move/ownership scan, zero-count who-may-call (forget/leak)",
    },
    "C09": {
        "text": "With tokio's bounded-channel axiom the bound is the number given to mpsc::channel: decided that it is exactly the mailbox_capacity parameter (no arithmetic/max/constant), guarded by `> 0` with a panicking else edge, that spawn passes CONFIGURED.get().copied().unwrap_or(32) unchanged, that set_default_mailbox_capacity's full decision table is (0 => Err without write; n => OnceLock::set(n) decides) and nothing else writes the OnceLock (the same obligations are decided when the configured default is kept in an atomic with a reserved 'unconfigured' value: initial value = marker = the value the validator rejects, claimed only by a strong compare_exchange(marker, n), read by one load), and that every enqueue (stop marker included) is a waiting send on that one channel; no unbounded channel.",
        "note": ASSUME % "T1, T7, T8",
        "technique": "static analysis: argument provenance, guard dominance, decision table of the validator, who-may-call",
    },
    "C10": {
        "text": "All 4 tokio::time::timeout sites (timeout_at is accepted when its deadline is Instant::now() advanced by the parameter with a total checked_add; a panicking `Instant + Duration` is reported): duration is exactly the API's Duration parameter (through closure/coroutine captures), future is exactly the whole base operation tell/ask(self|self.clone(), msg), awaited in place; Error::Timeout only in Elapsed closures passed to map_err on that await, with the same Duration; after `?` the inner Result is returned unchanged (other failures reported as themselves); is_retryable decided over all variants; blocking_tell/blocking_ask dispatch every Some(d) to the timeout primitive with d. Not decided: returning *at* the deadline (timer accuracy / scheduling) - runtime quantity.",
        "note": ASSUME % "T1, T5, T7, T8",
        "technique": "static analysis: argument provenance across captures, `?`/map_err value flow, decision table",
    },
    "C13": {
        "text": "Pairing rule over every Error::Send/Timeout/Receive construction (all feature sets): conditioned on exactly the matching failure, control-equivalent with exactly one dead_letter::record::<M> with matching reason, message type, self.identity() and API label, and reaching the function result; every record is paired (so none on success, none twice through wrappers); record() does one fetch_add(1) on every path and the counter has no other writer; neither the recorder nor a delivery function can panic on its own. Four infrastructure Error::Send sites are frozen exceptions.",
        "note": ASSUME % "T1, T3, T5, T7, T8",
        "technique": "static analysis: control-equivalence (dominators/post-dominators) pairing of error constructions and record calls, failure-condition classification, who-may-call on the counter",
    },
    "C11": {
        "text": "Uniqueness: one Identity::new call, fed by fetch_add(non-zero constant) on a static atomic referenced by no other body, feeding the one ActorRef::new (atomic RMW axiom gives uniqueness under any concurrency). Stability: every ActorRef/ActorWeak construction copies id from the parameter/self.id, identity() returns self.id, erased handles forward. Truthfulness: complete decision tables of ActorRef::is_alive, ActorWeak::is_alive and ActorWeak::upgrade over the tokio handle predicates; receivers die with the lifecycle on every exit; the runtime keeps no strong handle of its own while it waits for work and spawn leaks none (C07 rules), so upgrade succeeds exactly while a user-visible strong reference or queued message exists. Not decided: the instant of the flip under concurrency (tokio handle semantics).",
        "note": ASSUME % "T2, T7, T8, T9",
        "technique": "static analysis: who-may-call on the id counter static, field provenance of handle constructions, decision tables",
    },
    "C12": {
        "text": "Isolation reduced to structure: lifecycle future directly into the single tokio::spawn, no catch_unwind, no hook on unwind paths, receivers owned by the task (pending/future senders fail). Global-state inventory: every static under every feature set is classified (atomic, OnceLock, task-local key, tracing metadata, wait-for map) - an unclassified static is reported. Lock discipline: within the live range of the wait-for MutexGuard in ask no panic entry/Assert/unwrap is reachable (crate-local callees transitively), the deliberate panic happens only after the guard was moved into mem::drop, and WaitForGuard::drop never unwraps the lock result - hence the mutex cannot be poisoned and a destructor cannot abort. Dead-letter accounting: every failing delivery branch has exactly one record call with the reason of that failure (C13 pairing rule re-evaluated). Senders get error values, not panics: no panic entry / Assert / unwrap / expect reachable in the public delivery functions, their primitives and the dead-letter recorder (only the governed deadlock panic).",
        "note": ASSUME % "T6, T7, T8, T9",
        "technique": "static analysis: statics inventory, guard live-range computation + panic-site scan with bounded inlining, who-may-call",
    },
    "C14": {
        "text": "Wiring necessary for completeness (each item's failure loses some cycle): every hook future is the future argument of CURRENT_ACTOR.scope with this actor's identity; every async ask path enters ActorRef::ask; self-ask test, has_path call and insert lie in the live range of one MutexGuard (atomic check-then-insert) with edge caller.id -> callee identity, before the send; walk direction decided by interprocedural provenance (starts at callee id, searches caller id); true outcomes lead to the panic. The cycle walk itself (loop form or successors/take/any iterator form): continues from the successor just looked up, is bounded by at least graph.len() steps, answers true exactly on the branch where the successor is the target and false only when the chain ended or the bound is exhausted (no other data-dependent early stop). NOT decided: a machine-checked proof that these structural facts imply 'finds every path' (paper argument: functional graph, at most n distinct successors).",
        "note": ASSUME % "T6, T7, T8" + " Evaluated under feature sets containing deadlock-detection.",
        "technique": "static analysis: future-wrapper provenance, lock-guard live range, interprocedural argument provenance, dominance",
    },
    "C15": {
        "text": "Edge <=> guard (control-equivalent, same key, only when a task-local identity exists); the compiler's coroutine layout stores a WaitForGuard at every suspension point after the insert, so completion, timeout, cancellation and unwinding all run the destructor, which removes self.0 under the same lock; one insert and one remove site; the panic is reachable only through (self-ask or has_path) under the lock. Rule O15.5 (edge must be retired before the reply is published) fails on the unchanged tree: genuine defect F1 (stale edge => false deadlock panic), reproduced and recorded as a known finding; any other violation still fails the check.",
        "note": ASSUME % "T3, T7, T8, T9" + " Evaluated under feature sets containing deadlock-detection. Correctness of has_path itself is not decided (see C14).",
        "technique": "static analysis: control-equivalence, coroutine-layout typestate (guard stored across awaits), destructor inspection, dominance of the reply publication",
    },
    "C16": {
        "text": "All 34 trait-impl methods, 12 From conversions and 6 Clone impls of the boxed handles are verbatim forwarders: only call is the expected callee (derived from the method name) plus transparent wrappers, every argument is exactly the corresponding parameter in order, the result is the callee's result through boxed()/Box::new/unsize/Option::map-with-boxing only, into the correct (same / counterpart) trait object; debug_fmt is effect-free. A verbatim forwarder is observationally transparent by construction, for every input and schedule. What stands behind strong/weak objects: impl and unsize-coercion inventory.",
        "note": ASSUME % "T6, T8",
        "technique": "static analysis: forwarder check (resolved callee + argument provenance + wrapper chain) over impl items",
    },
    "C17": {
        "text": "Sibling agreement of blocking_*_no_timeout with tell/ask on a behavioural descriptor (envelope shape, single waiting enqueue, error variant x failure condition x dead-letter reason, downcast target); C01/C03/C13 rules evaluated on the blocking bodies; dispatch None/Some(d) decided by guard + argument provenance; helper closure builds a current-thread runtime with the timer enabled, block_on's the timeout wrapper (C10 shape; only the elapsed timer becomes Error::Timeout, any other outcome of the wrapped operation is passed on unchanged) and sends the result back; the caller returns rx.recv() (dead helper => Err); runtime entry only inside closures passed to std::thread::spawn; deprecated aliases forward with constant None. Not decided: wall-clock bound (thread scheduling).",
        "note": ASSUME % "T1, T3, T5, T6, T8",
        "technique": "static analysis: sibling cross-check of send-path descriptors, who-may-call on runtime entry points, provenance",
    },
    "C18": {
        "text": "Configuration diff: for each of the function families of the default build, the behavioural skeleton (graph of channel operations, hook calls, spawns, timers, thread/runtime calls, crate-local calls, constructions of result/error/message values, constant flag assignments, returns, panics) under every analysed feature set equals the default skeleton after erasing an explicit additive allow-list (logging, clock reads, metrics, task-local scoping, wait-for bookkeeping, pure getters). Any added/removed event or control-flow edge between events is a violation naming both. Every other check is itself evaluated under the feature sets. The deadlock panic is allowed iff C15-O15.5 holds - it does not (known finding F1').",
        "note": ASSUME % "T6, T8" + " The allow-list entries are trusted to be observation-only (each is a single callee pattern with a reason, see engine/skeleton.py).",
        "technique": "static analysis: cross-configuration comparison of event graphs extracted from MIR (sibling/cfg-variant cross-check)",
    },
    "C20": {
        "text": "With `metrics`: one MessageProcessingGuard::new site, dominated by the Envelope arm, dominating the handler call, once per iteration, and stored in the coroutine across the handler's suspension point (compiler layout) - so exactly the handled user messages are measured, stop markers and leftovers never; Drop records once with start.elapsed(); inventory of all writers of the collector's atomics (count: fetch_add(1) only; max: fetch_max only; total: saturating fetch_update only; all on every path with the same duration); snapshot fields are computed by the same expression trees and under the same branch conditions as the accessors (or by calling them); ActorRef accessors forward; handles hold Arc<MetricsCollector> and every construction copies it; one collector per spawn. Not decided: avg<=max / max>=longest as arithmetic (paper argument from the decided structure).",
        "note": ASSUME % "T7, T8, T9" + " Evaluated under feature sets containing metrics.",
        "technique": "static analysis: dominance + coroutine-layout typestate for the RAII guard, who-may-write inventory of atomics, expression-tree sibling comparison",
    },
    "C19": {
        "level": "translation_validation",
        "text": "The proc macros are validated as a translator on a generated corpus (quick: seeded sample covering every return-type spelling x attribute option, ~65 programs; thorough: the full product of the grammar, ~800 programs) compiled against the real macros under the extractor and checked statically against an independent oracle table: Reply == declared return type (compiler type equality), handle() is a verbatim awaited forwarder, on_tell_result overridden iff the documented table says so and logging only under Err, user's method kept, derive(Actor) yields Args=Self/Error=Infallible/on_start=Ok(args) for every actor shape; 9 negative programs must be rejected with the macro's own diagnostic (a compiling twin guards against vacuous failure). Thorough additionally validates every macro use in the repository's own tests and examples (>=100 generated impls, all features) against an oracle table read from the source text. Runtime half decided in /repo: on_tell_result is called exactly once per tell, never for ask, with a reference to the handler's value.",
        "note": "Programs are type-checked, never executed. Trusts rustc's type equality and that the pinned nightly expands the macros as stable does (T8). Programs outside the generated grammar are not covered.",
        "technique": "static analysis: translation validation of macro expansions (generated corpus type-checked and inspected through the MIR extractor) + compile-fail witnesses",
    },
}
