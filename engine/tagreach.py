"""Path-sensitive forward reachability with enum-variant tags.

Plain CFG reachability cannot see that after `r = if failed { Err(e) } else { Ok(()) }` the test `if let Err(e) = r`
takes the Err arm exactly on the paths where `failed` held - the shape every helper that returns a Result produces
once it is inlined into its caller. This module explores (block, tags) states from a start block, where `tags` maps
locals to what is known about them on this path: the variant of a Result / Option / Poll / ControlFlow value (with
the same for its payload), references to such values, and booleans / discriminants computed from them by
`is_err`-style predicates, `Try::branch`, `from_residual`, and `discriminant`. A switch whose subject is known takes
only the feasible arm. Everything else is kept over-approximate (unknown => all successors), so the set of reached
blocks is always a subset of plain reachability and a superset of the feasible paths."""

VIDX = {"Ok": 0, "Err": 1, "None": 0, "Some": 1, "Ready": 0, "Pending": 1, "Continue": 0, "Break": 1}
ADTS = ("std::result::Result", "std::option::Option", "std::task::Poll", "std::ops::ControlFlow")
PRED = {"is_err": "Err", "is_ok": "Ok", "is_some": "Some", "is_none": "None"}


class TagReach:
    def __init__(self, body, cfg, max_states=60000):
        self.b = body
        self.cfg = cfg
        self.max_states = max_states

    # ---- values
    def _place(self, tags, p):
        v = tags.get(p["l"])
        proj = list(p["p"])
        while proj and v is not None:
            e = proj.pop(0)
            if e == "*":
                v = v[1] if v[0] == "ref" else None
            elif isinstance(e, dict) and "v" in e:
                if v[0] == "v" and e.get("name") == v[1] and proj and proj[0] == 0:
                    proj.pop(0)
                    v = v[2]
                else:
                    v = None
            else:
                v = None
        return v

    def _operand(self, tags, o):
        pl = o.get("copy") or o.get("move")
        if pl is not None:
            return self._place(tags, pl)
        c = o.get("const")
        if c is not None and "int" in c and c["int"] in ("0", "1"):
            return ("b", int(c["int"]))
        return None

    def _rvalue(self, tags, rv):
        if "use" in rv:
            return self._operand(tags, rv["use"])
        if "ref" in rv:
            v = self._place(tags, rv["ref"])
            return ("ref", v) if v is not None else None
        if rv.get("agg") == "adt" and rv.get("adt") in ADTS and rv.get("variant") in VIDX:
            return ("v", rv["variant"], self._operand(tags, rv["ops"][0]) if rv["ops"] else None)
        if "discr" in rv and isinstance(rv["discr"], dict) and "l" in rv["discr"]:
            v = self._place(tags, rv["discr"])
            if v is not None and v[0] == "v":
                return ("b", VIDX[v[1]])
        if "unop" in rv and rv["unop"] == "Not":
            v = self._operand(tags, rv["a"])
            if v is not None and v[0] == "b":
                return ("b", 1 - v[1])
        return None

    def step(self, bb, tags):
        blk = self.b.blocks[bb]
        tags = dict(tags)
        for st in blk.stmts:
            k = st["k"]
            if k == "assign":
                l = st["place"]["l"]
                if st["place"]["p"]:
                    if not any(e == "*" for e in st["place"]["p"]):
                        tags.pop(l, None)
                    continue
                v = self._rvalue(tags, st["rv"])
                if v is None:
                    tags.pop(l, None)
                else:
                    tags[l] = v
            elif k == "dead":
                tags.pop(st["l"], None)
        t = blk.term
        succs = list(self.cfg.succ[bb])
        if t["k"] == "call":
            fn = t.get("fn") or {}
            nm = fn.get("name")
            d = t["dest"]
            v = None
            a0 = self._operand(tags, t["args"][0]) if t["args"] else None
            if nm in PRED and a0 is not None:
                x = a0[1] if a0[0] == "ref" else a0
                if x is not None and x[0] == "v":
                    v = ("b", 1 if x[1] == PRED[nm] else 0)
            elif nm == "branch" and a0 is not None and a0[0] == "v" and a0[1] in ("Ok", "Some", "Err", "None"):
                v = ("v", "Continue", a0[2]) if a0[1] in ("Ok", "Some") else ("v", "Break", ("v", a0[1], a0[2]))
            elif nm == "from_residual" and a0 is not None and a0[0] == "v" and a0[1] in ("Err", "None"):
                v = a0
            if not d["p"]:
                if v is None:
                    tags.pop(d["l"], None)
                else:
                    tags[d["l"]] = v
        elif t["k"] == "yield":
            if not t["resume_arg"]["p"]:
                tags.pop(t["resume_arg"]["l"], None)
        elif t["k"] == "switch":
            v = self._operand(tags, t["discr"])
            if v is not None and v[0] == "b":
                tgt = t["otherwise"]
                for val, b2 in t["arms"]:
                    if int(val) == v[1]:
                        tgt = b2
                if tgt in succs:
                    succs = [tgt]
        return succs, tags

    def reach(self, start, tags=None, avoid=()):
        """Blocks reachable from `start` on feasible paths that do not enter a block of `avoid`."""
        avoid = set(avoid)
        init = (start, frozenset((tags or {}).items()))
        seen = {init}
        work = [init]
        blocks = {start}
        while work:
            bb, tf = work.pop()
            if len(seen) > self.max_states:
                return self.cfg.reachable_from(start, avoid=avoid) | {start}      # give up: plain reachability (still sound)
            succs, t2 = self.step(bb, dict(tf))
            tf2 = frozenset(t2.items())
            for s in succs:
                if s in avoid:
                    continue
                st = (s, tf2)
                if st not in seen:
                    seen.add(st)
                    blocks.add(s)
                    work.append(st)
        return blocks
