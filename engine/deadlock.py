"""Shared analysis of the deadlock-detection block (C12, C14, C15): the body of ActorRef::ask
that consults the wait-for graph, the live range of the graph's MutexGuard, the check / insert /
guard construction sites, the deliberate panic."""
from cfg import callee, is_panic_call
from prov import strip_wrappers, strip_refs, show, fn_path
from rules.common import cfg_of, tracer_of, live_calls, fn_of, loc_of, all_calls
import anchors

GRAPH_GUARD = "std::sync::MutexGuard"


def is_graph_guard_ty(ty, f):
    return any(t.is_adt(GRAPH_GUARD) for t in ty.walk()) and any(anchors.is_wait_map(f, t) for t in ty.walk())


def is_map_method(f, blk, name):
    fn = fn_of(blk)
    if fn.get("name") != name or not (fn.get("def") or "").startswith("std::collections::HashMap"):
        return False
    ta = [f.ty(t) for t in fn.get("targs", [])]
    return len(ta) >= 2 and ta[0].k == "uint" and ta[1].is_adt("Identity")


class Detection:
    def __init__(self, f):
        self.f = f
        self.errors = []
        self.body = None
        self.hp_def = hp = anchors.has_path_def(f)
        self.graph_fn = anchors.wait_for_graph_def(f)
        if hp is None or self.graph_fn is None:
            self.errors.append("cannot identify the cycle test (fn(&HashMap<u64, Identity>, ..) -> bool) / the wait-for graph accessor")
            return
        def calls_hp(k):
            # also when the cycle test is a method of a private extension trait on the map (statically resolved call)
            return callee(k.term) == hp or ((k.term.get("fn") or {}).get("resolved") or {}).get("def") == hp
        self.calls_hp = calls_hp
        cands = [b for b in f.fn_bodies() if any(calls_hp(k) for k in live_calls(b)) and b.defn != hp]
        if len(cands) != 1:
            self.errors.append("expected exactly one caller of the cycle test %s, found %d" % (hp, len(cands)))
            return
        self.body = b = cands[0]
        self.root = b.root or b.defn
        self.cfg = cfg_of(b)
        self.tr = tr = tracer_of(b)
        allg = [i for i, l in enumerate(b.locals) if is_graph_guard_ty(f.ty(l["ty"]), f) and f.ty(l["ty"]).is_adt(GRAPH_GUARD)]
        # temporaries that merely receive a move of another guard local are aliases, not acquisitions
        self.guards = []
        for g in allg:
            ds = tr.defs.get(g, [])
            alias = len(ds) == 1 and ds[0][0] == "assign" and "use" in ds[0][3] and (ds[0][3]["use"].get("move") or {}).get("l") in allg
            if not alias:
                self.guards.append(g)
        self.has_path = [k.idx for k in live_calls(b) if calls_hp(k)]
        self.inserts = [k.idx for k in live_calls(b) if is_map_method(f, k, "insert")]
        self.locks = [k.idx for k in live_calls(b) if fn_of(k).get("name") == "lock" and "Mutex" in (fn_of(k).get("def") or "")]
        self.panics = [k.idx for k in live_calls(b) if is_panic_call(k.term)]
        self.wfg = []   # WaitForGuard constructions
        for blk in b.blocks:
            if blk.idx not in self.cfg.live:
                continue
            for i, st in enumerate(blk.stmts):
                if st["k"] == "assign" and "agg" in st["rv"] and st["rv"].get("adt") == anchors.names(f).guard and anchors.names(f).guard:
                    self.wfg.append((blk.idx, i, st))
        self.region = set()
        self.release = set()
        self.acquire = None
        if len(self.guards) == 1:
            g = self.guards[0]
            # acquisition: the block whose call/assign defines g
            ds = tr.defs.get(g, [])
            if len(ds) == 1:
                self.acquire = ds[0][1]
            for blk in b.blocks:
                t = blk.term
                if t["k"] == "call":
                    for a in t["args"]:
                        pl = a.get("move")
                        if pl is not None and pl["l"] == g and not pl["p"]:
                            self.release.add(blk.idx)
                    # `_39 = move _15; drop(move _39)`
                if t["k"] == "drop" and t["place"]["l"] == g and not t["place"]["p"]:
                    self.release.add(blk.idx)
                for st in blk.stmts:
                    if st["k"] == "assign" and "use" in st["rv"]:
                        pl = st["rv"]["use"].get("move")
                        if pl is not None and pl["l"] == g and not pl["p"]:
                            self.release.add(blk.idx)
            if self.acquire is not None:
                self.region = self.cfg.reachable_from(self.cfg.succ[self.acquire], avoid=self.release)
        self._link_host()

    def _link_host(self):
        """The async body that builds the ask envelope ("host"). The detection block is either part
        of it, or lives in a crate-local helper function the host calls once (extract-method)."""
        import sendpaths
        sp = sendpaths.get(self.f)
        hosts = {}
        for s, fl, _ in sp.envelopes:
            rc = fl.get("reply_channel")
            if rc and rc[0] == "agg" and rc[1][2] == "Some" and s.body.is_coroutine:
                hosts[s.body.name] = s.body
        self.host = None
        self.host_call = None
        self.is_helper = False
        b = self.body
        if b.name in hosts:
            self.host = b
        else:
            calls = [(hb, k.idx) for hb in hosts.values() for k in live_calls(hb) if callee(k.term) == b.defn]
            if len(calls) == 1 and b.def_kind in ("Fn", "AssocFn"):
                self.host, self.host_call = calls[0]
                self.is_helper = True
        if self.host is not None:
            self.host_cfg = cfg_of(self.host)
            self.host_tr = tracer_of(self.host)

    def loc(self, bb):
        return loc_of(self.body, bb)


_cache = {}


def get(f):
    d = _cache.get(f.path)
    if d is None:
        d = Detection(f)
        _cache[f.path] = d
    return d


def panic_sites_in(f, body, blocks=None, depth=3, seen=None):
    """Panic entry points, Assert terminators, unwrap/expect calls in the given blocks of body
    and transitively in crate-local callees."""
    seen = seen if seen is not None else set()
    out = []
    cfg = cfg_of(body)
    for blk in body.blocks:
        if blk.idx not in cfg.live or blk.cleanup:
            continue
        if blocks is not None and blk.idx not in blocks:
            continue
        t = blk.term
        if t["k"] == "assert":
            out.append((body.name, loc_of(body, blk), "assert %s" % t["msg"][:30]))
        if t["k"] == "call":
            fn = fn_of(blk)
            nm = fn.get("name")
            d = fn.get("def") or ""
            if is_panic_call(t):
                out.append((body.name, loc_of(body, blk), d))
            elif nm in ("unwrap", "expect", "unwrap_err", "expect_err") and (d.startswith("std::result::Result") or d.startswith("std::option::Option")):
                out.append((body.name, loc_of(body, blk), d))
            rd = (fn.get("resolved") or {}).get("def") or d
            if fn.get("krate") == f.crate and depth > 0 and rd not in seen:
                cb = f.body(rd)
                if cb is not None:
                    seen.add(rd)
                    out.extend(panic_sites_in(f, cb, None, depth - 1, seen))
    return out
