// THROWAWAY FEASIBILITY PROBE — not part of the verification framework.
// Used once, in a scratch directory, to obtain the measurements quoted in DESIGN.md §3
// (mir_promoted capture through a provider override, coroutine witnesses, span provenance).
// Build: zero-dependency crate + rust-toolchain.toml (channel = "nightly"); run as RUSTC_WORKSPACE_WRAPPER.

#![feature(rustc_private)]
extern crate rustc_driver;
extern crate rustc_interface;
extern crate rustc_middle;
extern crate rustc_hir;
extern crate rustc_span;
extern crate rustc_lexer;
extern crate rustc_data_structures;
extern crate rustc_index;

use rustc_driver::Compilation;
use rustc_interface::interface;
use rustc_middle::ty::TyCtxt;
use rustc_middle::mir::{self, TerminatorKind};

struct Cb;
use std::sync::OnceLock;
use rustc_span::def_id::LocalDefId;
type PromotedFn = for<'tcx> fn(TyCtxt<'tcx>, LocalDefId) -> (&'tcx rustc_data_structures::steal::Steal<mir::Body<'tcx>>, &'tcx rustc_data_structures::steal::Steal<rustc_index::IndexVec<mir::Promoted, mir::Body<'tcx>>>);
static DEFAULT_PROMOTED: OnceLock<PromotedFn> = OnceLock::new();
fn my_promoted<'tcx>(tcx: TyCtxt<'tcx>, def: LocalDefId) -> (&'tcx rustc_data_structures::steal::Steal<mir::Body<'tcx>>, &'tcx rustc_data_structures::steal::Steal<rustc_index::IndexVec<mir::Promoted, mir::Body<'tcx>>>) {
    let r = (DEFAULT_PROMOTED.get().unwrap())(tcx, def);
    let want = std::env::var("DRV_FN").unwrap_or_default();
    let path = tcx.def_path_str(def.to_def_id());
    if !want.is_empty() && path.contains(&want) {
        let body = r.0.borrow();
        eprintln!("PROMOTED {path} blocks={} locals={}", body.basic_blocks.len(), body.local_decls.len());
        if std::env::var("DRV_CALLS").is_ok() {
            for (bb, data) in body.basic_blocks.iter_enumerated() {
                if let Some(t) = &data.terminator { if let TerminatorKind::Call { func, .. } = &t.kind {
                    let sp = t.source_info.span;
                    let f = format!("{func:?}");
                    if f.contains("recv") || f.contains("on_run") || f.contains("on_stop") || f.contains("poll_fn") || f.contains("handle_message") || f.contains("scope") {
                        let ed = sp.ctxt().outer_expn_data();
                        eprintln!("  {bb:?} {f} span={sp:?} callsite={:?} root={} expn={:?} macro_def={:?}", sp.source_callsite(), sp.ctxt().is_root(), ed.kind, ed.macro_def_id.map(|d| tcx.def_path_str(d)));
                    }
                }}
            }
        }
        if std::env::var("DRV_DUMP").is_ok() {
            let mut out = Vec::new();
            rustc_middle::mir::pretty::MirWriter::new(tcx).write_mir_fn(&body, &mut out).unwrap();
            eprintln!("{}", String::from_utf8_lossy(&out));
        }
    }
    r
}
impl rustc_driver::Callbacks for Cb {
    fn config(&mut self, config: &mut interface::Config) {
        config.override_queries = Some(|_sess, providers| {
            let _ = DEFAULT_PROMOTED.set(providers.queries.mir_promoted);
            providers.queries.mir_promoted = my_promoted;
        });
    }
    fn after_analysis<'tcx>(&mut self, _c: &interface::Compiler, tcx: TyCtxt<'tcx>) -> Compilation {
        let want = std::env::var("DRV_FN").unwrap_or_default();
        for def in tcx.hir_body_owners() {
            let path = tcx.def_path_str(def.to_def_id());
            let (p, _) = tcx.mir_promoted(def);
            let stolen = p.is_stolen();
            let is_co = tcx.is_coroutine(def.to_def_id());
            eprintln!("BODY {path} stolen={stolen} coroutine={is_co}");
            if !want.is_empty() && path.contains(&want) && is_co {
 if let Some(layout) = tcx.mir_coroutine_witnesses(def.to_def_id()) { eprintln!("  LAYOUT {path} fields={}", layout.field_tys.len()); for (i, f) in layout.field_tys.iter_enumerated() { eprintln!("    saved {i:?}: name={:?} {:?} @ {:?}", layout.field_names[i], f.ty, f.source_info.span); } for (v, fs) in layout.variant_fields.iter_enumerated() { eprintln!("    variant {v:?}: {fs:?} @ {:?}", layout.variant_source_info[v].span); } }
 }
 if !want.is_empty() && path.contains(&want) && !stolen {
                let body = p.borrow();
                eprintln!("  blocks={} locals={}", body.basic_blocks.len(), body.local_decls.len());
                for (bb, data) in body.basic_blocks.iter_enumerated() {
                    if let Some(t) = &data.terminator {
                        match &t.kind {
                            TerminatorKind::Call { func, args, destination, target, unwind, .. } => {
                                eprintln!("  {bb:?} CALL {func:?} args={args:?} dest={destination:?} target={target:?} cleanup={} span={:?}", data.is_cleanup, t.source_info.span);
                                let _ = unwind;
                            }
                            TerminatorKind::Yield { resume, .. } => eprintln!("  {bb:?} YIELD resume={resume:?}"),
                            TerminatorKind::SwitchInt { discr, targets } => eprintln!("  {bb:?} SWITCH {discr:?} {targets:?}"),
                            TerminatorKind::Return => eprintln!("  {bb:?} RETURN"),
                            _ => {}
                        }
                    }
                }
                if is_co {
                    if let Some(layout) = tcx.mir_coroutine_witnesses(def.to_def_id()) {
                        eprintln!("  LAYOUT fields={}", layout.field_tys.len());
                        for (i, f) in layout.field_tys.iter_enumerated() {
                            eprintln!("    saved {i:?}: {:?} @ {:?}", f.ty, f.source_info.span);
                        }
                        for (v, fs) in layout.variant_fields.iter_enumerated() {
                            eprintln!("    variant {v:?}: {fs:?} @ {:?}", layout.variant_source_info[v].span);
                        }
                    }
                }
            }
        }
        Compilation::Continue
    }
}

fn main() {
    let mut args: Vec<String> = std::env::args().collect();
    // RUSTC_WORKSPACE_WRAPPER: argv[1] is the real rustc path
    if args.len() > 1 && args[1].ends_with("rustc") { args.remove(1); }
    rustc_driver::run_compiler(&args, &mut Cb);
}
